//! `staticharness <casefile>`: lines `(<id> <static-id> (<tok> ...))`, tokens are chars.
//! Output: `<id> same <result>` when the memoized grammar and its unmemoized twin give the same `(output, errors)`
//! (printed with `{:?}`), `<id> DIFF M <memoized result> | P <plain result>` otherwise, `<id> UNSUPPORTED` for an
//! unknown static-id. Every grammar is described next to its definition.
use chumsky::prelude::*;
use std::io::Write;

type X<'a> = extra::Err<Rich<'a, char>>;

fn show<'a, O: std::fmt::Debug>(p: impl Parser<'a, &'a str, O, X<'a>>, s: &'a str) -> String {
    let r = std::panic::catch_unwind(std::panic::AssertUnwindSafe(|| {
        let (o, e) = p.parse(s).into_output_errors();
        let c = p.check(s).into_errors();
        format!("{:?} {:?} check:{:?}", o, e, c)
    }));
    r.unwrap_or_else(|_| "PANIC".to_string())
}

macro_rules! pair {
    ($s:expr, $m:expr, $p:expr) => {{
        let (m, p) = (show($m, $s), show($p, $s));
        if m == p { format!("same {}", m) } else { format!("DIFF M {} | P {}", m, p) }
    }};
}

/// nest = '(' nest ')' | empty, giving the depth: the body over a handle, and the `recursive()` formulation
fn nest_body<'a, P: Parser<'a, &'a str, usize, X<'a>> + Clone + 'a>(h: P) -> impl Parser<'a, &'a str, usize, X<'a>> + Clone + 'a {
    h.delimited_by(just('('), just(')')).map(|d: usize| d + 1).or(empty().to(0usize))
}
fn nest_fn<'a>() -> impl Parser<'a, &'a str, usize, X<'a>> + Clone + 'a {
    recursive(|h| nest_body(h))
}

// ---- property C19: drop accounting with statically typed outputs, zero-sized ones included ----
thread_local! {
    static LIVE: std::cell::Cell<i64> = std::cell::Cell::new(0);
    static MADE: std::cell::Cell<i64> = std::cell::Cell::new(0);
}
/// a zero-sized output with a destructor
#[derive(Debug)]
struct Z;
impl Z {
    fn new() -> Z {
        LIVE.with(|c| c.set(c.get() + 1));
        MADE.with(|c| c.set(c.get() + 1));
        Z
    }
}
impl Drop for Z {
    fn drop(&mut self) {
        LIVE.with(|c| c.set(c.get() - 1));
    }
}
/// the same, one byte wide
#[derive(Debug)]
struct S1(u8);
impl S1 {
    fn new() -> S1 {
        LIVE.with(|c| c.set(c.get() + 1));
        MADE.with(|c| c.set(c.get() + 1));
        S1(1)
    }
}
impl Drop for S1 {
    fn drop(&mut self) {
        LIVE.with(|c| c.set(c.get() - 1));
    }
}
/// parse and check `s`, drop everything, and report whether every value created was dropped exactly once
fn balanced<'a, O>(p: impl Parser<'a, &'a str, O, X<'a>>, s: &'a str) -> String {
    LIVE.with(|c| c.set(0));
    MADE.with(|c| c.set(0));
    let r = std::panic::catch_unwind(std::panic::AssertUnwindSafe(|| {
        let ok = {
            let res = p.parse(s);
            let ok = res.has_output();
            drop(res);
            ok
        };
        let _ = p.check(s).has_errors();
        ok
    }));
    drop(p);
    let (live, made) = (LIVE.with(|c| c.get()), MADE.with(|c| c.get()));
    match r {
        Err(_) => "DIFF M PANIC | P no panic".to_string(),
        Ok(ok) if live == 0 => format!("same accepted:{} created:{} live:0", ok, made),
        Ok(ok) => format!("DIFF M accepted:{} created:{} live:{} | P live:0", ok, made, live),
    }
}

fn run(sid: usize, s: &str) -> Option<String> {
    Some(match sid {
        // 0: a memoized parser memoized again (nested placement)
        0 => pair!(s, just('a').then(just('b')).memoized().memoized(), just('a').then(just('b'))),
        // 1: two zero-sized memoized parsers side by side in a choice
        1 => pair!(s, any().ignored().memoized().or(end().memoized()), any().ignored().or(end())),
        // 2: two zero-sized memoized parsers in sequence
        2 => pair!(s, any().ignored().memoized().then(end().memoized()), any().ignored().then(end())),
        // 3: clones of one memoized parser in two alternatives
        3 => {
            let m = text::ascii::ident().memoized();
            let p = text::ascii::ident();
            pair!(
                s,
                m.clone().then_ignore(just('(')).or(m.clone().then_ignore(just('['))).or(m.clone()),
                p.then_ignore(just('(')).or(p.then_ignore(just('['))).or(p)
            )
        }
        // 4: a tuple choice of memoized single-character parsers
        4 => pair!(
            s,
            choice((just('a').memoized(), just('b').memoized(), just('c').memoized())).repeated().collect::<String>(),
            choice((just('a'), just('b'), just('c'))).repeated().collect::<String>()
        ),
        // 5: three levels of memoization around a sequence, inside a repetition
        5 => pair!(
            s,
            just('a').then(just('b').or_not()).memoized().memoized().memoized().repeated().collect::<Vec<_>>(),
            just('a').then(just('b').or_not()).repeated().collect::<Vec<_>>()
        ),
        // 6: a zero-sized memoized parser under or_not, followed by another zero-sized memoized parser
        6 => pair!(
            s,
            any().ignored().memoized().or_not().then(any().ignored().memoized().or_not()).then(end().memoized()),
            any().ignored().or_not().then(any().ignored().or_not()).then(end())
        ),
        // 7: memoized parsers nested structurally: memo(memo(a) then memo(b)) or memo(a)
        7 => pair!(
            s,
            just('a').memoized().then(just('b').memoized()).memoized().map(|_| 2).or(just('a').memoized().map(|_| 1)),
            just('a').then(just('b')).map(|_| 2).or(just('a').map(|_| 1))
        ),
        // 8: a memoized zero-sized parser memoized again
        8 => pair!(s, any().ignored().memoized().memoized().repeated().collect::<Vec<()>>(), any().ignored().repeated().collect::<Vec<()>>()),
        // 9: left recursion through a memoized step terminates (that is all the property claims: chumsky cuts the
        //    recursion, it does not grow the seed); the result is shown for information
        9 => {
            let atom = one_of::<_, &str, X>("0123456789").map(|c: char| c as i64 - 48);
            let lr = recursive(|e| {
                e.then_ignore(just('-')).then(atom).map(|(a, b)| a - b).memoized().or(atom)
            });
            let m = show(lr, s);
            if m == "PANIC" { format!("DIFF M {} | P terminates", m) } else { format!("same {}", m) }
        }
        // 10: expr = expr '+' expr | atom with the sum memoized (chumsky's own left_recursive test) against atom ('+' atom)*
        10 => {
            let atom = one_of::<_, &str, X>("abc").repeated().at_least(1).collect::<String>();
            let lr = recursive(|e: Recursive<dyn Parser<&str, String, X>>| {
                e.clone().then_ignore(just('+')).then(e).map(|(a, b)| format!("{}{}", a, b)).memoized().or(atom)
            });
            let it = atom.foldl(just('+').ignore_then(atom).repeated(), |a, b| format!("{}{}", a, b));
            let (m, p) = (show(lr, s), show(it, s));
            // the expected sets of the two readings legitimately differ: compare output and acceptance
            let head = |t: &str| t.split(" [").next().unwrap_or("").to_string();
            if head(&m) == head(&p) { format!("same {}", head(&m)) } else { format!("DIFF M {} | P {}", m, p) }
        }
        // ---- property C12: recursive handles ----
        // 20: defining a declared parser a second time panics at the definition site and leaves the first definition in place
        20 => {
            let mut p = Recursive::<chumsky::recursive::Indirect<&str, usize, X>>::declare();
            p.define(nest_body(p.clone()));
            let mut q = p.clone();
            let site = format!("{}:{}", file!(), line!() + 2);      // the line of the second `define` below
            let second = std::panic::catch_unwind(std::panic::AssertUnwindSafe(|| {
                q.define(just('x').to(7usize));
            }));
            let m = show(p.clone(), s);
            let e = show(nest_fn(), s);
            // the panic is "at the definition site": its message names the file and line of the offending `define`
            let named = match &second {
                Err(pl) => {
                    let msg = pl.downcast_ref::<String>().cloned().or_else(|| pl.downcast_ref::<&str>().map(|x| x.to_string())).unwrap_or_default();
                    if msg.contains(&site) { None } else { Some(msg) }
                }
                Ok(()) => None,
            };
            if second.is_ok() { format!("DIFF M second define accepted; {} | P panic at the definition site", m) }
            else if let Some(msg) = named { format!("DIFF M panic message names another place: {} | P names {}", msg.replace('\n', " "), site) }
            else if m != e { format!("DIFF M {} | P {}", m, e) } else { format!("same {}", m) }
        }
        // 21: a recursive parser cloned, the original dropped, the clone boxed and used through the box
        21 => {
            let p = nest_fn();
            let c = p.clone();
            drop(p);
            let b = c.clone().boxed();
            drop(c);
            let m = show(b, s);
            let e = show(nest_fn(), s);
            if m != e { format!("DIFF M {} | P {}", m, e) } else { format!("same {}", m) }
        }
        // 22: mutually recursive declare/define: round = '(' square ')' | empty, square = '[' round ']' | empty; handles cloned and dropped
        22 => {
            let mut round = Recursive::<chumsky::recursive::Indirect<&str, usize, X>>::declare();
            let mut square = Recursive::<chumsky::recursive::Indirect<&str, usize, X>>::declare();
            round.define(square.clone().delimited_by(just('('), just(')')).map(|d: usize| d + 1).or(empty().to(0usize)));
            square.define(round.clone().delimited_by(just('['), just(']')).map(|d: usize| d + 1).or(empty().to(0usize)));
            let r2 = round.clone();
            drop(round);
            drop(square);
            let m = show(r2, s);
            // reference: the same language by a hand-written recogniser
            fn reference(s: &str) -> Option<usize> {
                let b = s.as_bytes();
                let n = b.len();
                if n % 2 != 0 { return None; }
                let h = n / 2;
                for i in 0..h {
                    let (o, c) = if i % 2 == 0 { (b'(', b')') } else { (b'[', b']') };
                    if b[i] != o || b[n - 1 - i] != c { return None; }
                }
                Some(h)
            }
            let head = m.split(" [").next().unwrap_or("").to_string();
            let want = format!("{:?}", reference(s));
            if head == want { format!("same {}", head) } else { format!("DIFF M {} | P {}", m, want) }
        }
        // ---- property C19 ----
        // 30: group([p; 3]) with a zero-sized output that has a destructor, also under an abandoned alternative
        30 => {
            let a = || just::<_, &str, X>('a').map(|_| Z::new());
            balanced(group([a(), a(), a()]).map(|x| x.len()).or(any().repeated().count()), s)
        }
        // 31: the same with a one-byte output
        31 => {
            let a = || just::<_, &str, X>('a').map(|_| S1::new());
            balanced(group([a(), a(), a()]).map(|x| x.len()).or(any().repeated().count()), s)
        }
        // 32: collect_exactly::<[Z; 3]> over a repetition and over a separated list whose item fails after the separator
        32 => {
            let a = || just::<_, &str, X>('a').map(|_| Z::new());
            balanced(
                a().repeated().collect_exactly::<[Z; 3]>().map(|x| x.len())
                    .or(a().separated_by(just('b')).collect_exactly::<[Z; 2]>().map(|x| x.len()))
                    .or(any().repeated().count()),
                s,
            )
        }
        // 33: tuple group, Vec collect and folds of zero-sized outputs, failing after some items
        33 => {
            let a = || just::<_, &str, X>('a').map(|_| Z::new());
            balanced(
                group((a(), a(), a())).map(|_| 3usize)
                    .or(a().repeated().at_least(2).collect::<Vec<Z>>().then_ignore(just('b')).map(|v| v.len()))
                    .or(a().foldl(a().repeated(), |x, _y| x).then_ignore(just('b')).map(|_| 1usize))
                    .or(any().repeated().count()),
                s,
            )
        }
        // ---- property C10 / C07: the input types themselves, driven through the `Input` trait ----
        // 40: IoInput answers every request by position, whatever the order of the requests (Proofs/InputsP.v io_refines:
        //     the model's io_run equals this by-position reference on every history)
        40 => {
            use chumsky::input::{Input, IoInput, ValueInput};
            let bytes = s.as_bytes().to_vec();
            let n = bytes.len();
            let (_c0, mut cache) = IoInput::new(std::io::Cursor::new(bytes.clone())).begin();
            let mut h: usize = 7;
            let mut bad = None;
            for i in 0..(2 * n + 4) {
                h = h.wrapping_mul(31).wrapping_add(if n > 0 { bytes[i % n] as usize } else { 1 }).wrapping_add(i);
                let c = if i == 0 { 0 } else { h % (n + 2) };
                let mut cur = c;
                // SAFETY: IoInput's cursors are plain offsets; any offset is a valid request (beyond the end: end of input)
                let got = unsafe { <IoInput<std::io::Cursor<Vec<u8>>> as ValueInput>::next(&mut cache, &mut cur) };
                let want = bytes.get(c).copied();
                let want_cur = if want.is_some() { c + 1 } else { c };
                if got != want || cur != want_cur {
                    bad = Some(format!("request {} at {}: {:?} then cursor {} | P {:?} then cursor {}", i, c, got, cur, want, want_cur));
                    break;
                }
            }
            match bad { Some(b) => format!("DIFF M {}", b), None => format!("same {} requests", 2 * n + 4) }
        }
        // 41: Input::map over a slice of (token, span) with gapped spans: the cursor k tokens after the start (reached through
        //     next_maybe and next_ref alternately), and the span of every pair of cursors, against the span formula of the model
        //     (Inputs.spn_mapped; Proofs/InputsP.v mapped_cursor_refines)
        41 => {
            use chumsky::input::{BorrowInput, Input};
            use chumsky::span::SimpleSpan;
            let toks: Vec<(char, SimpleSpan)> =
                s.chars().enumerate().map(|(i, c)| (c, SimpleSpan::from((3 * i + 1)..(3 * i + 2 + i % 2)))).collect();
            let n = toks.len();
            let eoi = SimpleSpan::from((3 * n + 5)..(3 * n + 7));
            fn walk<'a, I: BorrowInput<'a> + Input<'a, Span = SimpleSpan>>(inp: I, n: usize, spans: &[(usize, usize)], eoi_end: usize) -> Option<String>
            where I::Cursor: Clone {
                let (c0, mut cache) = inp.begin();
                let mut cursors = vec![c0.clone()];
                let mut c = c0;
                for k in 0..n {
                    // SAFETY: the cursor comes from begin / the previous call
                    let some = if k % 2 == 0 { unsafe { I::next_maybe(&mut cache, &mut c) }.is_some() } else { unsafe { I::next_ref(&mut cache, &mut c) }.is_some() };
                    if !some { return Some(format!("token {} missing", k)); }
                    cursors.push(c.clone());
                }
                for k1 in 0..=n {
                    for k2 in k1..=n {
                        // SAFETY: both cursors were produced by this input
                        let sp = unsafe { I::span(&mut cache, &cursors[k1]..&cursors[k2]) };
                        let want = if k1 < n {
                            let st = spans[k1].0;
                            (st, if k1 == k2 { st } else { spans[k2 - 1].1 })
                        } else { (eoi_end, eoi_end) };
                        if (sp.start, sp.end) != want {
                            return Some(format!("span of cursors {}..{}: {}..{} | P {}..{}", k1, k2, sp.start, sp.end, want.0, want.1));
                        }
                    }
                }
                None
            }
            let spans: Vec<(usize, usize)> = toks.iter().map(|(_, s)| (s.start, s.end)).collect();
            let inp = toks.as_slice().map(eoi, |(t, s)| (t, s));
            match walk(inp, n, &spans, eoi.end) { Some(b) => format!("DIFF M {}", b), None => format!("same {} cursors", n + 1) }
        }
        _ => return None,
    })
}

fn main() {
    let path = std::env::args().nth(1).expect("usage: staticharness <casefile>");
    let text = std::fs::read_to_string(path).expect("case file");
    let out = std::io::stdout();
    let mut out = out.lock();
    for line in text.lines() {
        let t: Vec<String> = line.replace('(', " ( ").replace(')', " ) ").split_whitespace().map(|x| x.to_string()).collect();
        if t.len() < 5 || t[0] != "(" { continue; }
        let (id, sid) = (t[1].clone(), t[2].parse::<usize>().unwrap_or(usize::MAX));
        let s: String = t[4..].iter().filter_map(|x| x.parse::<u32>().ok()).filter_map(char::from_u32).collect();
        match run(sid, &s) {
            Some(r) => writeln!(out, "{} {}", id, r).unwrap(),
            None => writeln!(out, "{} UNSUPPORTED", id).unwrap(),
        }
    }
}
