//! Differential-test harness for chumsky's text parsers (`/repo/src/text.rs`, `/repo/src/regex.rs`).
//!
//! Usage: `textharness <casefile>`; see the task description / report for the line formats.
//!
//!   (<id> <kind> <parser> (<tok> ...))   ->  `<id> P<s>.<e> F<0|1>` | `<id> P- F<0|1>` | `<id> P! F<0|1>`
//!                                            (+ ` R<s>.<e>` | ` R-` for `(regex N)`)
//!   (<id> class (<tok> ...))             ->  `<id> C <tok>:<34 flags> ...` (10 char, 10 u8, 2 ascii ident, 10 + 2 the one-cluster grapheme)
//!
//! Blank lines and lines whose first non-blank character is `;` are skipped (no output line).

use chumsky::prelude::*;
use chumsky::text::{self, Char, Grapheme, Graphemes};
use std::io::Write;

/// The fixed regex table for `(regex N)`.
pub const PATTERNS: &[&str] = &[
    /* 0 */ r"[a-z]+",
    /* 1 */ r"[0-9]+(\.[0-9]+)?",
    /* 2 */ r"a*b",
    /* 3 */ r"(ab|a)c?",
    /* 4 */ r"\s+",
    /* 5 */ r"[^ ]*",
    /* 6 */ r"",
    /* 7 */ r"é+",
    /* 8 */ r"a|ab",
    /* 9 */ r"\w+",
    // look-behind assertions: what they see depends on the text before the position the parser is at
    /* 10 */ r"\b[a-z]+",
    /* 11 */ r"\B[a-z]+",
    /* 12 */ r"^[a-z]",
    /* 13 */ r"(?m)^[a-z0-9]+",
    /* 14 */ r"\b",
    /* 15 */ r"(?m)$\s?",
];

// ---------------------------------------------------------------------------------------------
// S-expressions
// ---------------------------------------------------------------------------------------------

#[derive(Debug, Clone)]
enum Sx {
    Atom(String),
    List(Vec<Sx>),
}

fn tokenize(s: &str) -> Vec<String> {
    let mut out = Vec::new();
    let mut cur = String::new();
    for c in s.chars() {
        if c == '(' || c == ')' || c.is_whitespace() {
            if !cur.is_empty() {
                out.push(std::mem::take(&mut cur));
            }
            if c == '(' || c == ')' {
                out.push(c.to_string());
            }
        } else {
            cur.push(c);
        }
    }
    if !cur.is_empty() {
        out.push(cur);
    }
    out
}

fn parse_sx_at(toks: &[String], pos: &mut usize) -> Option<Sx> {
    let t = toks.get(*pos)?;
    *pos += 1;
    if t == "(" {
        let mut items = Vec::new();
        loop {
            let t = toks.get(*pos)?;
            if t == ")" {
                *pos += 1;
                return Some(Sx::List(items));
            }
            items.push(parse_sx_at(toks, pos)?);
        }
    } else if t == ")" {
        None
    } else {
        Some(Sx::Atom(t.clone()))
    }
}

/// The whole line must be exactly one s-expression.
fn parse_sx(toks: &[String]) -> Option<Sx> {
    let mut pos = 0;
    let sx = parse_sx_at(toks, &mut pos)?;
    if pos == toks.len() {
        Some(sx)
    } else {
        None
    }
}

fn atom(sx: &Sx) -> Option<&str> {
    match sx {
        Sx::Atom(a) => Some(a),
        _ => None,
    }
}

/// `(<tok> ...)` decimal numbers.
fn tok_list(sx: &Sx) -> Option<Vec<u64>> {
    match sx {
        Sx::List(items) => items
            .iter()
            .map(|i| {
                let a = atom(i)?;
                if a.is_empty() || !a.bytes().all(|b| b.is_ascii_digit()) {
                    return None;
                }
                a.parse::<u64>().ok()
            })
            .collect(),
        _ => None,
    }
}

// ---------------------------------------------------------------------------------------------
// Case description
// ---------------------------------------------------------------------------------------------

#[derive(Debug, Clone)]
enum Spec {
    Int(u32),
    Digits(u32),
    Ident,
    UIdent,
    Keyword(Vec<u64>),
    UKeyword(Vec<u64>),
    Whitespace,
    InlineWhitespace,
    Newline,
    PaddedInt(u32),
    PaddedIdent,
    Regex(usize),
    /// `(regexat N K)`: `any().repeated().exactly(K).ignore_then(regex(PATTERNS[N]))`; the reference is an anchored
    /// search in the whole input starting at the offset of token K
    RegexAt(usize, usize),
}

fn radix(sx: &Sx) -> Option<u32> {
    let a = atom(sx)?;
    if a.is_empty() || !a.bytes().all(|b| b.is_ascii_digit()) {
        return None;
    }
    let r = a.parse::<u32>().ok()?;
    (2..=36).contains(&r).then_some(r)
}

fn parse_spec(sx: &Sx) -> Option<Spec> {
    let nullary = |name: &str| -> Option<Spec> {
        Some(match name {
            "ident" => Spec::Ident,
            "uident" => Spec::UIdent,
            "whitespace" => Spec::Whitespace,
            "inline_whitespace" => Spec::InlineWhitespace,
            "newline" => Spec::Newline,
            "padded_ident" => Spec::PaddedIdent,
            _ => return None,
        })
    };
    match sx {
        Sx::Atom(a) => nullary(a),
        Sx::List(items) => {
            let head = atom(items.first()?)?;
            match (head, items.len()) {
                (_, 1) => nullary(head),
                ("int", 2) => Some(Spec::Int(radix(&items[1])?)),
                ("digits", 2) => Some(Spec::Digits(radix(&items[1])?)),
                ("padded_int", 2) => Some(Spec::PaddedInt(radix(&items[1])?)),
                ("keyword", 2) => Some(Spec::Keyword(tok_list(&items[1])?)),
                ("ukeyword", 2) => Some(Spec::UKeyword(tok_list(&items[1])?)),
                ("regex", 2) => {
                    let a = atom(&items[1])?;
                    if a.is_empty() || !a.bytes().all(|b| b.is_ascii_digit()) {
                        return None;
                    }
                    let n = a.parse::<usize>().ok()?;
                    (n < PATTERNS.len()).then_some(Spec::Regex(n))
                }
                ("regexat", 3) => {
                    let n = atom(&items[1])?.parse::<usize>().ok()?;
                    let k = atom(&items[2])?.parse::<usize>().ok()?;
                    (n < PATTERNS.len()).then_some(Spec::RegexAt(n, k))
                }
                _ => None,
            }
        }
    }
}

fn to_string(toks: &[u64]) -> Option<String> {
    toks.iter()
        .map(|&t| u32::try_from(t).ok().and_then(char::from_u32))
        .collect()
}

fn to_bytes(toks: &[u64]) -> Option<Vec<u8>> {
    toks.iter().map(|&t| u8::try_from(t).ok()).collect()
}

// ---------------------------------------------------------------------------------------------
// Running a parser
// ---------------------------------------------------------------------------------------------

/// Result of prefix mode, in *byte* offsets relative to the input buffer.
#[derive(Debug, Clone, Copy, PartialEq)]
enum Pre {
    Fail,
    /// The returned slice is not inside the caller's buffer.
    Outside,
    At(usize, usize),
}

fn locate(base: *const u8, len: usize, p: *const u8, plen: usize) -> Pre {
    let (b, q) = (base as usize, p as usize);
    if q < b || q > b + len || q + plen > b + len {
        Pre::Outside
    } else {
        Pre::At(q - b, q - b + plen)
    }
}

type ES<'a> = extra::Err<Simple<'a, char>>;
type EB<'a> = extra::Err<Simple<'a, u8>>;

fn run_str<'src, P>(p: P, input: &'src str) -> (Pre, bool)
where
    P: Parser<'src, &'src str, &'src str, ES<'src>> + Clone,
{
    // 1. prefix mode: exactly what `Parser::lazy` does
    let r = p.clone().then_ignore(any().repeated()).parse(input);
    let pre = match (r.has_errors(), r.output()) {
        (false, Some(s)) => locate(input.as_ptr(), input.len(), s.as_ptr(), s.len()),
        _ => Pre::Fail,
    };
    // 2. full mode
    let r = p.parse(input);
    let full = r.has_output() && !r.has_errors();
    (pre, full)
}

fn run_bytes<'src, P>(p: P, input: &'src [u8]) -> (Pre, bool)
where
    P: Parser<'src, &'src [u8], &'src [u8], EB<'src>> + Clone,
{
    let r = p.clone().then_ignore(any().repeated()).parse(input);
    let pre = match (r.has_errors(), r.output()) {
        (false, Some(s)) => locate(input.as_ptr(), input.len(), s.as_ptr(), s.len()),
        _ => Pre::Fail,
    };
    let r = p.parse(input);
    let full = r.has_output() && !r.has_errors();
    (pre, full)
}

type EG<'a> = extra::Err<Simple<'a, &'a Grapheme>>;

fn run_graphemes<'src, P>(p: P, input: &'src Graphemes) -> (Pre, bool)
where
    P: Parser<'src, &'src Graphemes, &'src Graphemes, EG<'src>> + Clone,
{
    let r = p.clone().then_ignore(any().repeated()).parse(input);
    let pre = match (r.has_errors(), r.output()) {
        (false, Some(s)) => locate(input.as_bytes().as_ptr(), input.as_bytes().len(), s.as_bytes().as_ptr(), s.as_bytes().len()),
        _ => Pre::Fail,
    };
    let r = p.parse(input);
    let full = r.has_output() && !r.has_errors();
    (pre, full)
}

/// Independent computation: leftmost-first match anchored at offset 0 of the haystack.
fn regex_direct(n: usize, hay: &[u8]) -> Option<(usize, usize)> {
    regex_direct_at(n, hay, 0)
}

/// Leftmost-first match anchored at offset `off` of the haystack, with the whole haystack as context.
fn regex_direct_at(n: usize, hay: &[u8], off: usize) -> Option<(usize, usize)> {
    use regex_automata::{meta, Anchored, Input};
    if off > hay.len() {
        return None;
    }
    let re = meta::Regex::new(PATTERNS[n]).expect("pattern table entry must compile");
    re.find(Input::new(hay).range(off..).anchored(Anchored::Yes))
        .map(|m| (m.start(), m.end()))
}

#[cfg(feature = "probe_newline_bytes")]
#[allow(dead_code)]
fn probe_newline_bytes(input: &'static [u8]) -> (Pre, bool) {
    // Expected: error[E0277]: the trait bound `&str: OrderedSeq<'_, u8>` is not satisfied
    run_bytes(text::newline::<&'static [u8], EB<'static>>().to_slice(), input)
}

/// Embeds `body` between two guard bytes in a leaked allocation and returns the inner part, so that the input has a
/// real (non-dangling) address even when empty and out-of-buffer pointers are distinguishable.
fn leak_guarded(body: &[u8]) -> &'static [u8] {
    let mut v = Vec::with_capacity(body.len() + 2);
    v.push(b'Z');
    v.extend_from_slice(body);
    v.push(b'Z');
    let all: &'static [u8] = Box::leak(v.into_boxed_slice());
    &all[1..all.len() - 1]
}

/// byte offset -> char index (None if not on a char boundary)
fn char_index(s: &str, off: usize) -> Option<usize> {
    if s.is_char_boundary(off) {
        Some(s[..off].chars().count())
    } else {
        None
    }
}

enum Outcome {
    Unsupported,
    Line(String),
}

fn fmt_pre(pre: Pre, conv: &dyn Fn(usize) -> Option<usize>) -> String {
    match pre {
        Pre::Fail => "P-".to_string(),
        Pre::Outside => "P!".to_string(),
        Pre::At(s, e) => match (conv(s), conv(e)) {
            (Some(s), Some(e)) => format!("P{}.{}", s, e),
            _ => "P!".to_string(),
        },
    }
}

fn fmt_re(m: Option<(usize, usize)>, conv: &dyn Fn(usize) -> Option<usize>) -> String {
    match m {
        None => " R-".to_string(),
        Some((s, e)) => match (conv(s), conv(e)) {
            (Some(s), Some(e)) => format!(" R{}.{}", s, e),
            _ => " R!".to_string(),
        },
    }
}

fn case_str(spec: &Spec, toks: &[u64]) -> Outcome {
    let Some(owned) = to_string(toks) else {
        return Outcome::Unsupported;
    };
    let input: &'static str =
        std::str::from_utf8(leak_guarded(owned.as_bytes())).expect("guarded input is UTF-8");
    type I = &'static str;
    type E = ES<'static>;
    let leak_kw = |k: &[u64]| -> Option<&'static str> {
        let s = to_string(k)?;
        Some(&*Box::leak(s.into_boxed_str()))
    };
    let (pre, full) = match spec {
        Spec::Int(r) => run_str(text::int::<I, E>(*r), input),
        Spec::Digits(r) => run_str(text::digits::<I, E>(*r).to_slice(), input),
        Spec::Ident => run_str(text::ascii::ident::<I, E>(), input),
        Spec::UIdent => run_str(text::unicode::ident::<I, E>(), input),
        Spec::Keyword(k) => match leak_kw(k) {
            Some(k) => run_str(text::ascii::keyword::<I, &'static str, E>(k), input),
            None => return Outcome::Unsupported,
        },
        Spec::UKeyword(k) => match leak_kw(k) {
            Some(k) => run_str(text::unicode::keyword::<I, &'static str, E>(k), input),
            None => return Outcome::Unsupported,
        },
        Spec::Whitespace => run_str(text::whitespace::<I, E>().to_slice(), input),
        Spec::InlineWhitespace => run_str(text::inline_whitespace::<I, E>().to_slice(), input),
        Spec::Newline => run_str(text::newline::<I, E>().to_slice(), input),
        Spec::PaddedInt(r) => run_str(text::int::<I, E>(*r).padded(), input),
        Spec::PaddedIdent => run_str(text::ascii::ident::<I, E>().padded(), input),
        Spec::Regex(n) => run_str(regex::<I, E>(PATTERNS[*n]), input),
        Spec::RegexAt(n, k) => run_str(
            any::<I, E>().repeated().exactly(*k).ignore_then(regex::<I, E>(PATTERNS[*n])),
            input,
        ),
    };
    let conv = |off: usize| char_index(input, off);
    let mut line = format!("{} F{}", fmt_pre(pre, &conv), full as u8);
    if let Spec::Regex(n) = spec {
        line.push_str(&fmt_re(regex_direct(*n, input.as_bytes()), &conv));
    }
    if let Spec::RegexAt(n, k) = spec {
        let r = match input.char_indices().map(|(i, _)| i).chain([input.len()]).nth(*k) {
            Some(off) => regex_direct_at(*n, input.as_bytes(), off),
            None => None,
        };
        line.push_str(&fmt_re(r, &conv));
    }
    Outcome::Line(line)
}

/// `graphemes`: the same text as `str`, tokenized by chumsky into extended grapheme clusters (`&Graphemes`).
/// Offsets are printed as char indices like `str`.
fn case_graphemes(spec: &Spec, toks: &[u64]) -> Outcome {
    let Some(owned) = to_string(toks) else {
        return Outcome::Unsupported;
    };
    let text: &'static str =
        std::str::from_utf8(leak_guarded(owned.as_bytes())).expect("guarded input is UTF-8");
    let input: &'static Graphemes = Graphemes::new(text);
    type I = &'static Graphemes;
    type E = EG<'static>;
    let leak_kw = |k: &[u64]| -> Option<&'static Graphemes> {
        let s = to_string(k)?;
        Some(Graphemes::new(&*Box::leak(s.into_boxed_str())))
    };
    let (pre, full) = match spec {
        Spec::Int(r) => run_graphemes(text::int::<I, E>(*r), input),
        Spec::Digits(r) => run_graphemes(text::digits::<I, E>(*r).to_slice(), input),
        Spec::Ident => run_graphemes(text::ascii::ident::<I, E>(), input),
        Spec::UIdent => run_graphemes(text::unicode::ident::<I, E>(), input),
        Spec::Keyword(k) => match leak_kw(k) {
            Some(k) => run_graphemes(text::ascii::keyword::<I, &'static Graphemes, E>(k), input),
            None => return Outcome::Unsupported,
        },
        Spec::UKeyword(k) => match leak_kw(k) {
            Some(k) => run_graphemes(text::unicode::keyword::<I, &'static Graphemes, E>(k), input),
            None => return Outcome::Unsupported,
        },
        Spec::Whitespace => run_graphemes(text::whitespace::<I, E>().to_slice(), input),
        Spec::InlineWhitespace => run_graphemes(text::inline_whitespace::<I, E>().to_slice(), input),
        Spec::Newline => run_graphemes(text::newline::<I, E>().to_slice(), input),
        Spec::PaddedInt(r) => run_graphemes(text::int::<I, E>(*r).padded(), input),
        Spec::PaddedIdent => run_graphemes(text::ascii::ident::<I, E>().padded(), input),
        Spec::Regex(_) | Spec::RegexAt(_, _) => return Outcome::Unsupported,
    };
    let conv = |off: usize| char_index(text, off);
    Outcome::Line(format!("{} F{}", fmt_pre(pre, &conv), full as u8))
}

fn case_bytes(spec: &Spec, toks: &[u64]) -> Outcome {
    let Some(owned) = to_bytes(toks) else {
        return Outcome::Unsupported;
    };
    let input: &'static [u8] = leak_guarded(&owned);
    type I = &'static [u8];
    type E = EB<'static>;
    let leak_kw = |k: &[u64]| -> Option<&'static [u8]> {
        let s = to_bytes(k)?;
        Some(&*Box::leak(s.into_boxed_slice()))
    };
    let (pre, full) = match spec {
        Spec::Int(r) => run_bytes(text::int::<I, E>(*r), input),
        Spec::Digits(r) => run_bytes(text::digits::<I, E>(*r).to_slice(), input),
        Spec::Ident => run_bytes(text::ascii::ident::<I, E>(), input),
        Spec::UIdent => run_bytes(text::unicode::ident::<I, E>(), input),
        Spec::Keyword(k) => match leak_kw(k) {
            Some(k) => run_bytes(text::ascii::keyword::<I, &'static [u8], E>(k), input),
            None => return Outcome::Unsupported,
        },
        Spec::UKeyword(k) => match leak_kw(k) {
            Some(k) => run_bytes(text::unicode::keyword::<I, &'static [u8], E>(k), input),
            None => return Outcome::Unsupported,
        },
        Spec::Whitespace => run_bytes(text::whitespace::<I, E>().to_slice(), input),
        Spec::InlineWhitespace => run_bytes(text::inline_whitespace::<I, E>().to_slice(), input),
        // `text::newline` requires `&str: OrderedSeq<'_, I::Token>`, which does not hold for `u8`
        // (see the `probe_newline_bytes` feature).
        Spec::Newline => return Outcome::Unsupported,
        Spec::PaddedInt(r) => run_bytes(text::int::<I, E>(*r).padded(), input),
        Spec::PaddedIdent => run_bytes(text::ascii::ident::<I, E>().padded(), input),
        Spec::Regex(n) => run_bytes(regex::<I, E>(PATTERNS[*n]), input),
        Spec::RegexAt(n, k) => run_bytes(
            any::<I, E>().repeated().exactly(*k).ignore_then(regex::<I, E>(PATTERNS[*n])),
            input,
        ),
    };
    let conv = |off: usize| Some(off);
    let mut line = format!("{} F{}", fmt_pre(pre, &conv), full as u8);
    if let Spec::Regex(n) = spec {
        line.push_str(&fmt_re(regex_direct(*n, input), &conv));
    }
    if let Spec::RegexAt(n, k) = spec {
        let r = if *k <= input.len() { regex_direct_at(*n, input, *k) } else { None };
        line.push_str(&fmt_re(r, &conv));
    }
    Outcome::Line(line)
}

// ---------------------------------------------------------------------------------------------
// Character-class table
// ---------------------------------------------------------------------------------------------

fn ten_flags<C: Char>(c: C) -> String {
    let flags = [
        c.is_whitespace(),
        c.is_inline_whitespace(),
        c.is_newline(),
        c.is_digit(2),
        c.is_digit(8),
        c.is_digit(10),
        c.is_digit(16),
        c.is_digit(36),
        c.is_ident_start(),
        c.is_ident_continue(),
    ];
    flags.iter().map(|&b| if b { '1' } else { '0' }).collect()
}

/// Exactly the two predicates of `text::ascii::ident`.
fn ascii_flags<C: Char>(c: C) -> String {
    let start = c
        .to_ascii()
        .map(|i| i.is_ascii_alphabetic() || i == b'_')
        .unwrap_or(false);
    let cont = c
        .to_ascii()
        .map_or(false, |i| i.is_ascii_alphanumeric() || i == b'_');
    [start, cont]
        .iter()
        .map(|&b| if b { '1' } else { '0' })
        .collect()
}

fn class_line(toks: &[u64]) -> String {
    let mut out = String::from("C");
    for &t in toks {
        let ch = u32::try_from(t).ok().and_then(char::from_u32);
        let by = u8::try_from(t).ok();
        let a = ch.map(ten_flags).unwrap_or_else(|| "-".repeat(10));
        let b = by.map(ten_flags).unwrap_or_else(|| "-".repeat(10));
        let c = match (ch.map(ascii_flags), by.map(ascii_flags)) {
            (Some(x), Some(y)) if x != y => "XX".to_string(), // cannot happen: both agree below 256
            (Some(x), _) => x,
            (None, Some(y)) => y,
            (None, None) => "--".to_string(),
        };
        // the same character as a one-code-point cluster (`Char for &Grapheme`); 3000000 is the cluster CR LF
        let gs: Option<String> = if t == 3_000_000 { Some("\r\n".to_string()) } else { ch.map(String::from) };
        let g = match &gs {
            Some(s) => {
                let gr: &Grapheme = Graphemes::new(s.as_str()).iter().next().expect("one cluster");
                format!("{}{}", ten_flags(gr), ascii_flags(gr))
            }
            None => "-".repeat(12),
        };
        out.push_str(&format!(" {}:{}{}{}{}", t, a, b, c, g));
    }
    out
}

// ---------------------------------------------------------------------------------------------
// Driver
// ---------------------------------------------------------------------------------------------

fn run_case(sx: &Sx) -> Outcome {
    let Sx::List(items) = sx else {
        return Outcome::Unsupported;
    };
    let Some(kind) = items.get(1).and_then(atom) else {
        return Outcome::Unsupported;
    };
    match (kind, items.len()) {
        ("class", 3) => match tok_list(&items[2]) {
            Some(toks) => Outcome::Line(class_line(&toks)),
            None => Outcome::Unsupported,
        },
        ("str", 4) | ("bytes", 4) | ("graphemes", 4) => {
            let (Some(spec), Some(toks)) = (parse_spec(&items[2]), tok_list(&items[3])) else {
                return Outcome::Unsupported;
            };
            if kind == "str" {
                case_str(&spec, &toks)
            } else if kind == "graphemes" {
                case_graphemes(&spec, &toks)
            } else {
                case_bytes(&spec, &toks)
            }
        }
        _ => Outcome::Unsupported,
    }
}

/// Best-effort id extraction so that even malformed lines get `<id> UNSUPPORTED`.
fn line_id(toks: &[String]) -> String {
    toks.iter()
        .find(|t| *t != "(" && *t != ")")
        .cloned()
        .unwrap_or_else(|| "?".to_string())
}

fn main() {
    let args: Vec<String> = std::env::args().collect();
    if args.len() != 2 {
        eprintln!("usage: textharness <casefile>");
        std::process::exit(2);
    }
    let data = match std::fs::read(&args[1]) {
        Ok(d) => d,
        Err(e) => {
            eprintln!("textharness: cannot read {}: {}", args[1], e);
            std::process::exit(2);
        }
    };
    let text = String::from_utf8_lossy(&data);
    std::panic::set_hook(Box::new(|_| {}));
    let stdout = std::io::stdout();
    for line in text.lines() {
        let trimmed = line.trim();
        if trimmed.is_empty() || trimmed.starts_with(';') {
            continue;
        }
        let toks = tokenize(trimmed);
        let id = line_id(&toks);
        let out = match parse_sx(&toks) {
            None => format!("{} UNSUPPORTED", id),
            Some(sx) => match std::panic::catch_unwind(|| run_case(&sx)) {
                Ok(Outcome::Line(l)) => format!("{} {}", id, l),
                Ok(Outcome::Unsupported) => format!("{} UNSUPPORTED", id),
                Err(_) => format!("{} PANIC", id),
            },
        };
        let mut h = stdout.lock();
        let _ = writeln!(h, "{}", out);
        let _ = h.flush();
    }
}
