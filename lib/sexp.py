"""Tiny s-expression reader (for replays and the shrinker)."""

def parse(s):
    i = 0
    n = len(s)
    def skip():
        nonlocal i
        while i < n and s[i] in " \t\r\n": i += 1
    def one():
        nonlocal i
        skip()
        if s[i] == "(":
            i += 1
            out = []
            while True:
                skip()
                if s[i] == ")":
                    i += 1
                    return out
                out.append(one())
        j = i
        while i < n and s[i] not in " \t\r\n()": i += 1
        a = s[j:i]
        return int(a) if a.lstrip("-").isdigit() else a
    return one()

G_HEADS = {"End", "Empty", "Any", "Just", "OneOf", "NoneOf", "Select", "Custom", "Map", "MapWith", "To", "Ignored",
           "ToSpan", "ToSlice", "Filter", "TryMap", "TryMapWith", "Validate", "Then", "IgnoreThen", "ThenIgnore",
           "DelimitedBy", "PaddedBy", "Group", "Or", "Choice", "ChoiceVec", "OrNot", "Not", "AndIs", "Rewind",
           "RepUnit", "Collect", "CollectExactly", "Foldl", "Foldr", "FoldlWith", "FoldrWith", "RecoverVia",
           "RecoverSkipUntil", "RecoverSkipRetry", "Labelled", "MapErr", "WithCtx", "IgnoreWithCtx", "ThenWithCtx",
           "MapCtx", "JustCfg", "Memo", "Rec", "Var", "NestedIn", "NestedVia", "Boxed", "GroupArr", "Pratt", "RecDecl", "ExtWrap", "Skip", "NestedDelims", "WithState", "Lazy", "Padded", "AnyRef", "SelectRef", "Prog"}
IT_HEADS = {"IRep", "ISep", "IEnum", "IMap", "IMapWith", "IOrNot", "IRepCfg", "IIntoIter", "IThen"}
LIST_G = {"Group", "GroupArr", "Choice", "ChoiceVec"}

def is_g(x):
    return (isinstance(x, str) and x in G_HEADS) or (isinstance(x, list) and len(x) > 0 and isinstance(x[0], str) and x[0] in G_HEADS)

def g_children(x):
    """Direct sub-grammars (of type G) of a grammar or iterable node, descending through IT nodes."""
    out = []
    if not isinstance(x, list): return out
    h = x[0]
    for a in x[1:]:
        if is_g(a): out.append(a)
        elif isinstance(a, list) and a and isinstance(a[0], str) and a[0] in IT_HEADS: out.extend(g_children(a))
        elif h in LIST_G and isinstance(a, list): out.extend(y for y in a if is_g(y))
    return out

def subterms(x, path=()):
    """All (path, node) for G nodes."""
    if is_g(x): yield path, x
    if isinstance(x, list):
        for i, a in enumerate(x):
            if isinstance(a, list) or is_g(a):
                yield from subterms(a, path + (i,))

def replace(x, path, new):
    if not path: return new
    y = list(x)
    y[path[0]] = replace(x[path[0]], path[1:], new)
    return y

def size(x):
    return 1 + sum(size(a) for a in x) if isinstance(x, list) else 1
