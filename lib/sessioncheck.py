"""C13: parsers are pure values. Histories of parses through one parser value behind each wrapper (FORMAT v3 `H` lines) are
compared, result by result, with (a) a fresh parser on the same input (the property's oracle) and (b) the machine's
session (coq/Proofs/SessionP.v: the map of single parses), the tie.  Threads (`T` lines): statically typed grammars shared as
Arc<dyn Parser + Send + Sync>; the harness itself compares every thread's results with a sequential fresh run."""
import random, itertools
from common import *
from gen import *
import props, sexp

WRAPPERS = ["value", "clone", "ref", "box", "rc", "boxed", "either", "cache"]

CTORS = props.CORE + props.ITER + props.RECOVER + props.EMIT + ["MapWith", "ToSlice"] + ["WithCtx", "IgnoreWithCtx", "JustCfg", "JustCfg"]

def histories(rng, pool, tier):
    """index sequences over the pool: exhaustive for small pools, random beyond"""
    k = len(pool)
    out = []
    if k <= 2:
        for n in range(1, 5 if tier == "quick" else 7):
            out.extend(itertools.product(range(k), repeat=n))
    elif k == 3:
        out.extend(itertools.permutations(range(k)))
        for n in (2, 3) if tier == "quick" else (2, 3, 4):
            out.extend(itertools.product(range(k), repeat=n))
    else:
        perms = list(itertools.permutations(range(k)))
        rng.shuffle(perms)
        out.extend(perms[:6 if tier == "quick" else 24])
    for _ in range(4 if tier == "quick" else 12):
        out.append(tuple(rng.randrange(k) for _ in range(rng.randint(3, 6))))
    return [list(h) for h in dict.fromkeys(out)]

# ---- inputs for the statically typed thread grammars (harness/workers/src/threads.rs) ----
def S(s): return [ord(c) for c in s]
THREAD_POOLS = {
    0: ['[1, 2, {"a": [true, null]}]', 'nul', '{"k": "v", "n": -12}', '[[[[1]]]]', '', '[1,', '{"a" 1}', '"x"', '[[], {}, [{}]]', '{"a": {"b": {"c": [1, 2, 3]}}}'],
    1: ['1 + 2 * 3', '2 ^ 3 ^ 2', '-4! + 10 / 0', '1 +', '7', '(', '1+2+3+4+5+6+7+8+9', '2*-3', '3!!', '1 2', '10 - 4 - 3', '2 ^ -1'],
    2: ['[1,2,3]', '[1, 300, 5,]', '[', '[a]', '[]', '[1,,2]', '[256,255,1000]', '[1,2', '[99999999999]', '[7,]'],
    3: ['a = 1; b = 2;', 'a = ; b = 2;', 'x y z; q = 5;', 'a = 1', '', ';;', 'a = 1; = 2; c = 3;', 'ab=12;cd=34;ef', 'a = b;'],
    4: ['let x = 42;', 'fn f(a, b) { if a < b { a } else { b } }', 'été = 1', 'let # x', '', 'letx iff elsee', '  let   fn  ', 'x1 1x', 'if(else)'],
    5: ['f(x),g(y),h(z)', 'f(w)', '1(x)', 'f(x),', 'f(z)', 'f(y),f(y),f(z),f(x)', 'f(', 'abc(z),abc(q)', ''],
    6: ['[1, [2, [3]]]', '[1, [2, [3, [4]]]]', '{"a": {"b": {"c": 1}}}', 'true', '[', '{"a": [1, {"b": null}]}', '', '[[[]]]', '[[[[]]]]'],
}

def check_c13(pid, tier, seed, qv):
    rng = random.Random(seed)
    res = dict(stats=dict(evaluations=0, distinct_nontrivial=0, histories=0, history_parses=0, thread_cases=0, thread_runs=0, wrappers={},
                          tie_failures=0, oracle_failures=0, unsupported=0, known=0), samples=[], violations=[])
    G = Gen(rng, CTORS, alpha=ALPHA)
    G.emit_bias = 0.15
    ngram = 140 if tier == "quick" else 1500
    hlines, flines = [], []
    hmeta, fmeta = {}, {}
    fkey = {}
    hid, fid = 0, 0
    def clone_family():
        """hand-written Clone impls carry flags and bounds: every flag combination of separated_by / repeated / labelled,
        through the structural-clone wrapper, on inputs that tell the flags apart"""
        fam = []
        for lead in (0, 1):
            for trail in (0, 1):
                for lo, hi in ((0, "inf"), (1, 2)):
                    for fin in (lambda i: ["Collect", "CVec", i], lambda i: ["RepUnit", i], lambda i: ["Collect", "CCount", ["IEnum", i]]):
                        fam.append((fin(["ISep", ["Just", [A]], ["Just", [COMMA]], lo, hi, lead, trail]),
                                    [[COMMA, A, COMMA, A], [A, COMMA, A, COMMA], [A, COMMA, A], [COMMA, A, COMMA, A, COMMA], [A], [], [A, COMMA, A, COMMA, A]]))
        for lo, hi in ((0, "inf"), (1, 2), (2, 2), (0, 1)):
            fam.append((["Collect", "CVec", ["IRep", ["Just", [A]], lo, hi]], [[], [A], [A, A], [A, A, A]]))
            fam.append((["RepUnit", ["IRep", ["Just", [A]], lo, hi]], [[], [A], [A, A], [A, A, A]]))
        for ctx in (0, 1):
            fam.append((["Labelled", 3, ctx, ["Then", ["Just", [A]], ["Labelled", 4, 1 - ctx, ["Just", [B]]]]], [[A, B], [A], [B], [A, A]]))
        return fam
    work = []
    for gi in range(ngram):
        c = rng.random()
        if c < 0.2: g = G.memoize(G.g(rng.randint(2, 3)), 0.4)
        elif c < 0.3: g = G.rec(3)
        elif c < 0.36: g = G.leftrec()
        else: g = G.g(rng.randint(1, 4))
        allinp = inputs_for(rng, g, ALPHA, extra_alpha=[EURO] if rng.random() < 0.2 else [])
        rng.shuffle(allinp)
        pool = allinp[:rng.choice([2, 2, 3, 3, 4, 5])]
        hs = histories(rng, pool, tier)
        if len(hs) > (10 if tier == "quick" else 40):
            rng.shuffle(hs); hs = hs[:10 if tier == "quick" else 40]
        work.append((g, pool, hs, None))
    for g, pool in clone_family():
        work.append((g, pool, [list(range(len(pool))), list(reversed(range(len(pool))))], ["clone", "value"]))
    # a memoized left-recursive step and a clone of it (Memoized::clone: same cache key) both inside the recursion: the clone must
    # recognise the original's in-progress marker as its own
    for op in (43, 42):
        for via in (["Var", 0], ["MapCtx", "FId", ["Var", 0]]):
            step = ["Then", via, ["Then", ["Just", [op]], ["Just", [A]]]]
            for g in (["Rec", ["Or", ["Memo", 901, step], ["Or", ["Memo", 901, step], ["Just", [A]]]]],
                      ["Rec", ["Or", ["Then", ["Memo", 902, step], ["Just", [B]]], ["Or", ["Memo", 902, step], ["Just", [A]]]]]):
                pool = [[A], [A, op, A], [A, op, A, op, A], [A, op, A, op, A, op, A], [A, op, A, B], [A, op], []]
                work.append((g, pool, [list(range(len(pool))), list(reversed(range(len(pool))))], ["clone", "value"]))
    for gi, (g, pool, hs, ws) in enumerate(work):
        ik = rng.choice(["str", "slice"])
        ek = "rich" if rng.random() < 0.8 else "simple"
        for j, h in enumerate(hs):
            hid += 1
            w = ws[j % len(ws)] if ws else WRAPPERS[hid % len(WRAPPERS)]
            hlines.append(sx(["H", hid, ik, ek, w, g, [pool[i] for i in h]]))
            hmeta[hid] = dict(g=g, ik=ik, ek=ek, w=w, pool=pool, h=h)
        for i, inp in enumerate(pool):
            for md in ("parse", "check"):
                fid += 1
                flines.append(sx([fid, ik, ek, md, g, inp]))
                fmeta[fid] = dict(g=g, inp=inp, ikind=ik, ekind=ek, mode=md)
                fkey[(gi, i, md)] = fid
        for hh in range(hid - len(hs) + 1, hid + 1):
            hmeta[hh]["gi"] = gi
    # thread cases
    tlines, tmeta = [], {}
    tid = 0
    for sid, pool in THREAD_POOLS.items():
        for rep in range(2 if tier == "quick" else 8):
            for nth in ([2, 4, 8] if tier == "quick" else [2, 3, 4, 5, 6, 7, 8]):
                tid += 1
                p = list(pool); rng.shuffle(p)
                p = p[:rng.randint(3, len(p))]
                tlines.append(sx(["T", tid, nth, sid, [S(s) for s in p]]))
                tmeta[tid] = dict(static=sid, threads=nth, inputs=p)

    hres = run_h(hlines, pid + ".h")
    tres = run_h(tlines, pid + ".t", timeout=900)
    fimpl = run_cases("impl", flines, pid + ".f")
    fmach = run_cases("go", flines, pid + ".fm", env={"CHUM_WHICH": "go", "CHUM_QUIRKS": qv})
    fsem = run_cases("sem", flines, pid + ".fs", env={"CHUM_WHICH": "sem"})

    purity_bad, tie_bad, sem_bad, thread_bad = [], [], [], []
    seen = set()
    for hid_, m in hmeta.items():
        r = hres.get(hid_, "MISSING")
        if r.startswith(("UNSUPPORTED", "SKIPPED")) or "UNSUPPORTED" in r:
            res["stats"]["unsupported"] += 1; continue
        if not r.startswith("H"):
            purity_bad.append((hid_, -1, r, "no result line")); continue
        parts = [x.strip() for x in r[1:].split(" | ")] if r.strip() != "H" else []
        if len(parts) != len(m["h"]):
            purity_bad.append((hid_, -1, r, "wrong number of results")); continue
        res["stats"]["histories"] += 1
        res["stats"]["wrappers"][m["w"]] = res["stats"]["wrappers"].get(m["w"], 0) + 1
        ok_seen, fail_seen = False, False
        for pos, (idx, got) in enumerate(zip(m["h"], parts)):
            md = "parse" if pos % 2 == 0 else "check"
            f = fkey[(m["gi"], idx, md)]
            fresh = fimpl.get(f, "MISSING")
            res["stats"]["history_parses"] += 1
            res["stats"]["evaluations"] += 1
            if fresh.startswith(("UNSUPPORTED", "SKIPPED")): continue
            if got != fresh:
                purity_bad.append((hid_, pos, got, fresh))
            ri, rm, rs = Res(fresh), Res(fmach.get(f, "MISSING")), Res(fsem.get(f, "MISSING"))
            if rm.kind not in ("OOF", "MISSING", "UNSUPPORTED") and not (rm.raw == "PANIC progress" and ri.raw == "PANIC progress"):
                if props.obs_full(Res(got)) != props.obs_full(rm): tie_bad.append((hid_, pos, got, rm.raw))
                # (whether a single parse meets the specification is C01..C12's business, with their known findings; C13 is about
                #  purity - history = fresh parser - and the tie, so the specification is shown in samples only)
            if ri.kind == "OK": ok_seen = True
            if ri.kind == "FAIL": fail_seen = True
        if ok_seen and fail_seen and len(m["h"]) >= 3:
            seen.add((str(m["g"]), tuple(m["h"]), m["w"]))
        if len(res["samples"]) < 5 and hid_ % 173 == 5:
            res["samples"].append(dict(case=sx(["H", hid_, m["ik"], m["ek"], m["w"], m["g"], [m["pool"][i] for i in m["h"]]]), impl=r[:400]))
    for t, m in tmeta.items():
        r = tres.get(t, "MISSING")
        res["stats"]["thread_cases"] += 1
        res["stats"]["thread_runs"] += m["threads"] * len(m["inputs"]) * 8
        res["stats"]["evaluations"] += 1
        if not r.startswith("T same"):
            thread_bad.append((t, r[:300]))
        elif len(res["samples"]) < 7 and t % 17 == 3:
            res["samples"].append(dict(case=f"(T {t} {m['threads']} {m['static']} {m['inputs']})", impl=r[:300]))
    st = res["stats"]
    st["distinct_nontrivial"] = len(seen)
    st["tie_failures"] = len(tie_bad)
    st["oracle_failures"] = len(purity_bad) + len(sem_bad) + len(thread_bad)
    def hcase(h):
        m = hmeta[h]; return sx(["H", h, m["ik"], m["ek"], m["w"], m["g"], [m["pool"][i] for i in m["h"]]])
    if purity_bad:
        # smallest failing history, then try its prefixes / sub-histories to shrink
        h, pos, got, fresh = min(purity_bad, key=lambda x: (len(hmeta[x[0]]["h"]), len(hcase(x[0]))))
        m = hmeta[h]
        best = (m["h"], pos, got, fresh)
        cands = []
        for a in range(len(m["h"])):
            for b in range(a + 1, len(m["h"]) + 1):
                if (b - a) < len(m["h"]): cands.append(m["h"][a:b])
        cl = [sx(["H", i + 1, m["ik"], m["ek"], m["w"], m["g"], [m["pool"][j] for j in c]]) for i, c in enumerate(cands)]
        cr = run_h(cl, pid + ".hs") if cl else {}
        for i, c in enumerate(cands):
            r = cr.get(i + 1, "")
            parts = [x.strip() for x in r[1:].split(" | ")] if r.startswith("H") else []
            for p2, (idx, got2) in enumerate(zip(c, parts)):
                fresh2 = fimpl.get(fkey[(m["gi"], idx, "parse" if p2 % 2 == 0 else "check")], "MISSING")
                if got2 != fresh2 and len(c) < len(best[0]):
                    best = (c, p2, got2, fresh2)
        hist = [m["pool"][j] for j in best[0]]
        res["violations"].append(("oracle", "a parse in a history differs from a fresh parser on the same input",
                                  dict(case=sx(["H", 1, m["ik"], m["ek"], m["w"], m["g"], hist]), position=best[1], in_history=best[2], fresh_parser=best[3],
                                       wrapper=m["w"], n_failures=len(purity_bad),
                                       note="result number `position` of the history (parse at even, check at odd positions) differs from a fresh parser's result")))
    if tie_bad:
        h, pos, got, mr = min(tie_bad, key=lambda x: len(hcase(x[0])))
        res["violations"].append(("tie", "history result differs from the machine's session", dict(case=hcase(h), position=pos, impl=got, machine=mr, n_failures=len(tie_bad))))
    if sem_bad:
        h, pos, got, sr = min(sem_bad, key=lambda x: len(hcase(x[0])))
        res["violations"].append(("oracle", "history result differs from the specification", dict(case=hcase(h), position=pos, impl=got, sem=sr, n_failures=len(sem_bad))))
    if thread_bad:
        t, r = thread_bad[0]
        m = tmeta[t]
        res["violations"].append(("oracle", "threads sharing one parser disagree with the sequential run",
                                  dict(case=sx(["T", 1, m["threads"], m["static"], [S(s) for s in m["inputs"]]]), impl=r, inputs=m["inputs"], n_failures=len(thread_bad))))
    return res

def run_h(lines, tag, timeout=600):
    """H/T lines: ids are the second field; results `<id> H ...` / `<id> T ...`"""
    if not lines: return {}
    os.makedirs(WORK, exist_ok=True)
    n = max(1, min(NPROC, len(lines) // 40 + 1))
    out = {}
    procs = []
    for i in range(n):
        p = os.path.join(WORK, f"{tag}.{i}.cases")
        open(p, "w").write("\n".join(lines[i::n]) + "\n")
        procs.append((p, subprocess.Popen([HARNESS_EXE, p], stdout=subprocess.PIPE, stderr=subprocess.DEVNULL, env=ENV)))
    for p, pr in procs:
        try:
            o, _ = pr.communicate(timeout=timeout)
        except subprocess.TimeoutExpired:
            pr.kill(); o = b""
        for l in o.decode("utf-8", "replace").splitlines():
            sp = l.split(" ", 1)
            if len(sp) == 2 and sp[0].isdigit(): out[int(sp[0])] = sp[1]
        try: os.remove(p)
        except OSError: pass
    return out
