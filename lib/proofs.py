"""Proof half of a check: build the Coq development, verify the property's theorems compiled,
their statements are the pinned ones, they are closed under the global context, and nothing in the
development is admitted or axiomatised."""
import os, re, json, hashlib
from common import *

FORBIDDEN = re.compile(r"\b(Admitted|admit|Axiom|Axioms|Parameter|Parameters|Conjecture|Hypothesis|Variables?\b(?!.*\bSection)|Unset\s+Guard|bypass_check|type-in-type|impredicative-set|Admit\s+Obligations)\b")
# Variable/Hypothesis are allowed inside Sections only; checked separately below.
HARD_FORBIDDEN = re.compile(r"(\bAdmitted\b|\badmit\b|\bAxioms?\b|\bParameters?\b|\bConjecture\b|Unset\s+Guard|bypass_check|type-in-type|impredicative-set|Admit\s+Obligations|Unset\s+Positivity|Unset\s+Universe)")
ALLOWED_AXIOMS = set()      # the development is axiom-free; any axiom reported is a failure

def strip_comments(src):
    out, depth, i = [], 0, 0
    while i < len(src):
        if src.startswith("(*", i): depth += 1; i += 2
        elif src.startswith("*)", i) and depth > 0: depth -= 1; i += 2
        else:
            if depth == 0: out.append(src[i])
            i += 1
    return "".join(out)

def scan_forbidden():
    bad = []
    for d in (COQ, EXTRACT):
        for dp, _, fs in os.walk(d):
            for f in fs:
                if not f.endswith(".v"): continue
                p = os.path.join(dp, f)
                code = strip_comments(open(p).read())
                for m in HARD_FORBIDDEN.finditer(code):
                    bad.append(f"{os.path.relpath(p, ROOT)}: {m.group(0)}")
                # Variable / Hypothesis outside a Section
                depth = 0
                for line in code.split("\n"):
                    t = line.strip()
                    if re.match(r"^Section\b", t): depth += 1
                    elif re.match(r"^End\b", t) and depth > 0: depth -= 1
                    elif depth == 0 and re.match(r"^(Variables?|Hypothes[ie]s|Context)\b", t):
                        bad.append(f"{os.path.relpath(p, ROOT)}: {t[:40]} outside a Section")
    return bad

def norm_hash(path):
    code = strip_comments(open(path).read())
    code = re.sub(r"\s+", " ", code).strip()
    return hashlib.sha256(code.encode()).hexdigest()

def theorem_names(path):
    code = strip_comments(open(path).read())
    return re.findall(r"^\s*(?:Theorem|Example|Corollary)\s+([A-Za-z0-9_']+)", code, re.M)

def proof_half(pid, tier):
    """Returns dict(obligations, discharged, broken: [names/reasons], checker_cmd, axioms, log_tail)."""
    res = dict(obligations=0, discharged=0, broken=[], axioms=[], log_tail="",
               checker_cmd=f"cd coq && coq_makefile -f _CoqProject -o Makefile && make -j{NPROC} (full .vo build); "
                           f"coqc -Q . Chum Props/{pid}.v (Print Assumptions)")
    pfile = os.path.join(COQ, "Props", f"{pid}.v")
    if not os.path.exists(pfile):
        res["broken"].append(f"Props/{pid}.v missing")
        return res
    names = theorem_names(pfile)
    res["obligations"] = len(names)
    ok, log = build_coq(clean=(tier == "thorough"))
    res["log_tail"] = log[-1500:]
    bad = scan_forbidden()
    if bad:
        res["broken"].extend("forbidden: " + b for b in bad)
    pins = json.load(open(os.path.join(COQ, "PINS.json"))) if os.path.exists(os.path.join(COQ, "PINS.json")) else {}
    if pins.get(f"Props/{pid}.v") != norm_hash(pfile):
        res["broken"].append(f"Props/{pid}.v: statements differ from the pinned ones (coq/PINS.json)")
    if not ok:
        res["broken"].append("coq build failed: " + first_error(log))
        # which theorems are affected? if Props file's .vo is missing, all of them
        if not os.path.exists(pfile + "o"):
            return res
    # re-run the Props file alone to capture Print Assumptions
    rc, out = sh(f"coqc -Q . Chum Props/{pid}.v", cwd=COQ, timeout=600)
    if rc != 0:
        res["broken"].append(f"Props/{pid}.v does not compile: " + first_error(out))
        return res
    closed = out.count("Closed under the global context")
    axioms = re.findall(r"^\s*([A-Za-z0-9_.']+)\s*:", out[out.find("Axioms:"):], re.M) if "Axioms:" in out else []
    res["axioms"] = axioms
    n_printed = closed + out.count("Axioms:")
    n_thm = len(re.findall(r"^\s*(?:Theorem|Corollary)\s+([A-Za-z0-9_']+)", strip_comments(open(pfile).read()), re.M))
    if axioms:
        res["broken"].append("axioms used: " + ", ".join(axioms))
    if n_printed < n_thm:
        res["broken"].append(f"only {n_printed} Print Assumptions for {n_thm} theorems")
    res["discharged"] = len(names) if not res["broken"] else max(0, min(len(names) - 1, closed))
    if tier == "thorough" and not res["broken"]:
        rc, out = sh(f"coqchk -silent -o -Q . Chum Chum.Props.{pid}", cwd=COQ, timeout=1800)
        res["checker_cmd"] += f"; coqchk -silent -o -Q . Chum Chum.Props.{pid}"
        if rc != 0:
            res["broken"].append("coqchk failed: " + out[-400:])
        else:
            m = re.search(r"\* Axioms:\s*(.*?)\n\s*\*", out, re.S)
            ax = m.group(1).strip() if m else ""
            if ax and ax != "<none>":
                res["broken"].append("coqchk reports axioms: " + ax[:300])
            res["coqchk"] = out[-600:]
    return res

def first_error(log):
    i = log.find("Error")
    j = log.rfind("File ", 0, i) if i >= 0 else -1
    return re.sub(r"\s+", " ", log[j if j >= 0 else max(0, i - 100): i + 300]) if i >= 0 else log[-300:]

def repin():
    pins = {}
    pd = os.path.join(COQ, "Props")
    for f in sorted(os.listdir(pd)):
        if f.endswith(".v"):
            pins[f"Props/{f}"] = norm_hash(os.path.join(pd, f))
    json.dump(pins, open(os.path.join(COQ, "PINS.json"), "w"), indent=1)
    return pins
