"""Cross-check of extraction: a sample of the cases of a check run is evaluated INSIDE Coq (vm_compute on the definitions of
coq/Model, the ones the theorems are about) and compared with what the extracted OCaml runner printed for the same case lines.
The runner prints its result as a Coq term (CHUM_WHICH=coq / coqsem); this module translates the case's grammar to a Coq term
independently of the OCaml driver's parser and writes one `Example ... vm_compute. reflexivity.` per case; coqc checks them.
A failing example means: extraction, the OCaml driver's case parser, or this translator disagree - the tie between the
theorems' definitions and the executable model is broken."""
import os, subprocess, re
from common import *
import sexp
from gen import sx

class Skip(Exception): pass

def N(t): return f"({int(t)})%N"
def nat(t): return str(int(t))
def lst(f, l): return "[" + "; ".join(f(x) for x in l) + "]"
def b(x): return "true" if int(x) else "false"
def optnat(x): return "None" if x == "inf" else f"(Some {int(x)})"

def fn1(f):
    if isinstance(f, str): return f
    return f"({f[0]} {int(f[1])})"
def pred(p):
    if isinstance(p, str): return p
    return f"({p[0]} {lst(N, p[1])})"
def val(v):
    if v == "VUnit": return "VUnit"
    h = v[0]
    if h == "VTok": return f"(VTok {N(v[1])})"
    if h == "VNat": return f"(VNat {int(v[1])})"
    if h == "VPair": return f"(VPair {val(v[1])} {val(v[2])})"
    if h == "VList": return f"(VList {lst(val, v[1])})"
    if h == "VOpt": return "(VOpt None)" if v[1] == "none" else f"(VOpt (Some {val(v[1])}))"
    if h == "VSpan": return f"(VSpan {int(v[1])} {int(v[2])})"
    if h == "VSlice": return f"(VSlice {int(v[1])} {int(v[2])})"
    if h == "VTag": return f"(VTag {int(v[1])} {val(v[2])})"
    raise Skip(str(v))

def op(o):
    h = o[0]
    if any(isinstance(x, str) and x.isdigit() and int(x) > 3000 for x in o[1:3]): raise Skip("large binding power")
    if h == "PInfix": return f"(PInfix {b(o[1])} {int(o[2])} {g(o[3])} {int(o[4])})"
    if h in ("PPrefix", "PPostfix"): return f"({h} {int(o[1])} {g(o[2])} {int(o[3])})"
    raise Skip(str(o))

def it(i):
    h = i[0]
    if h == "IRep": return f"(IRep {g(i[1])} {int(i[2])} {optnat(i[3])})"
    if h == "ISep": return f"(ISep {g(i[1])} {g(i[2])} {int(i[3])} {optnat(i[4])} {b(i[5])} {b(i[6])})"
    if h == "IEnum": return f"(IEnum {it(i[1])})"
    if h == "IMap": return f"(IMap {fn1(i[1])} {it(i[2])})"
    if h == "IMapWith": return f"(IMapWith {i[1]} {it(i[2])})"
    if h == "IOrNot": return f"(IOrNot {g(i[1])})"
    if h == "IRepCfg": return f"(IRepCfg {g(i[1])} {int(i[2])} {optnat(i[3])} {int(i[4]) if len(i) > 4 else 0})"
    if h == "IIntoIter": return f"(IIntoIter {g(i[1])})"
    if h == "IThen": return f"(IThen {it(i[1])} {it(i[2])})"
    raise Skip(str(i))

ONE = {"Ignored", "ToSpan", "ToSlice", "OrNot", "Not", "Rewind", "Rec", "ExtWrap", "NestedIn"}
TWO = {"Then", "IgnoreThen", "ThenIgnore", "PaddedBy", "Or", "AndIs", "RecoverVia", "IgnoreWithCtx", "ThenWithCtx", "RecoverSkipRetry3"}

def g(x):
    """the grammar as a Coq term, following coq/Model/Syntax.v (and the derived forms exactly as FORMAT.md defines them)"""
    if isinstance(x, str):
        if x in ("End", "Empty", "Any"): return x
        if x == "AnyRef": return "Any"
        raise Skip(x)
    h = x[0]
    if h in ("Just", "OneOf", "NoneOf", "JustCfg"): return f"({h} {lst(N, x[1])})"
    if h in ("Select", "SelectRef"): return f"(Select {pred(x[1])} {fn1(x[2])})"
    if h == "Custom": return f"(Custom {lst(N, x[1])} {int(x[2])})"
    if h == "Map": return f"(Map {fn1(x[1])} {g(x[2])})"
    if h == "MapWith": return f"(MapWith {x[1]} {g(x[2])})"
    if h == "To": return f"(To {int(x[1])} {g(x[2])})"
    if h in ONE: return f"({h} {g(x[1])})"
    if h in ("RecDecl",): return f"(Rec {g(x[1])})"
    if h == "Boxed": return g(x[1])
    if h == "Filter": return f"(Filter {pred(x[1])} {g(x[2])})"
    if h in ("TryMap", "TryMapWith"): return f"({h} {pred(x[1])} {fn1(x[2])} {int(x[3])} {g(x[4])})"
    if h == "Validate": return f"(Validate {pred(x[1])} {int(x[2])} {g(x[3])})"
    if h in ("Then", "IgnoreThen", "ThenIgnore", "PaddedBy", "Or", "AndIs", "RecoverVia", "IgnoreWithCtx", "ThenWithCtx"):
        return f"({h} {g(x[1])} {g(x[2])})"
    if h == "DelimitedBy": return f"(DelimitedBy {g(x[1])} {g(x[2])} {g(x[3])})"
    if h in ("Group", "Choice", "ChoiceVec", "GroupArr"): return f"({h} {lst(g, x[1])})"
    if h == "RepUnit": return f"(RepUnit {it(x[1])})"
    if h == "Collect": return f"(Collect {x[1]} {it(x[2])})"
    if h == "CollectExactly": return f"(CollectExactly {int(x[1])} {it(x[2])})"
    if h in ("Foldl", "FoldlWith"): return f"({h} {g(x[1])} {it(x[2])} {int(x[3])})"
    if h in ("Foldr", "FoldrWith"): return f"({h} {it(x[1])} {g(x[2])} {int(x[3])})"
    if h == "RecoverSkipUntil": return f"(RecoverSkipUntil {g(x[1])} {g(x[2])} {g(x[3])} {int(x[4])})"
    if h == "RecoverSkipRetry": return f"(RecoverSkipRetry {g(x[1])} {g(x[2])} {g(x[3])})"
    if h == "Labelled": return f"(Labelled {int(x[1])} {b(x[2])} {g(x[3])})"
    if h == "MapErr": return f"(MapErr {int(x[1])} {g(x[2])})"
    if h == "WithCtx": return f"(WithCtx {val(x[1])} {g(x[2])})"
    if h == "MapCtx": return f"(MapCtx {fn1(x[1])} {g(x[2])})"
    if h == "Memo": return f"(Memo {int(x[1])} {g(x[2])})"
    if h == "Var": return f"(Var {int(x[1])})"
    if h == "Pratt": return f"(Pratt {g(x[2])} {lst(op, x[3])})"
    if h == "Skip": return f"(Skip {int(x[1])})"
    if h == "Lazy": return f"(Lazy {g(x[1])})"
    if h == "WithState": return f"(WithState {N(x[1])} {g(x[2])})"
    if h == "Padded": return f"(Padded {lst(N, x[1])} {g(x[2])})"
    if h == "Prog": return f"(Prog {lst(lambda o: o if isinstance(o, str) else f'(CExpect {N(o[1])})', x[1])} {int(x[2])})"
    if h == "NestedDelims": return f"(nested_delims {N(x[1])} {N(x[2])} {lst(lambda p: f'({N(p[0])}, {N(p[1])})', x[3])})"
    raise Skip(h)

EK = {"empty": "KEmpty", "cheap": "KCheap", "simple": "KSimple", "rich": "KRich"}
PLAIN = ("str", "slice", "array", "stream", "bstream", "mapspan", "withctx", "bytes", "io")

def qterm(qv):
    bits = [("true" if (i < len(qv) and qv[i] == "1") else "false") for i in range(11)]
    # mkQ: 8 defect flags, memo_on, memo_strict (index 10 of the vector; index 9 is the span flag of the mapped kinds), nested
    return "(set_nested (mkQ " + " ".join(bits[:9]) + " " + bits[10] + " None) (Some (fun _ => None)))"

def run(lines, qv, tag, n=40):
    """Returns dict(checked, skipped, failures=[(case line, runner term)], log)."""
    sample = []
    step = max(1, len(lines) // (3 * n))
    for l in lines[::step]:
        t = sexp.parse(l)
        if t[1] not in PLAIN or any(isinstance(x, list) for x in t[5]) or any(int(x) > 2000000 for x in t[5]): continue
        try:
            gt = g(t[4])
        except (Skip, IndexError, TypeError, ValueError):
            continue
        sample.append((l, t, gt))
        if len(sample) >= n: break
    res = dict(checked=0, skipped=0, failures=[], log="")
    if not sample: return res
    only = [l for l, _, _ in sample]
    go = run_cases("go", only, tag + ".xc", env={"CHUM_WHICH": "coq", "CHUM_QUIRKS": qv})
    se = run_cases("sem", only, tag + ".xcs", env={"CHUM_WHICH": "coqsem"})
    out = ["From Chum Require Import Model.Machine Model.Sem Model.Nested Model.Text Model.Inputs."]
    names = {}
    for l, t, gt in sample:
        cid = case_id(l)
        toks = lst(N, t[5])
        mode = "Emit" if t[3] == "parse" else "Check"
        for which, table in (("go", go), ("sem", se)):
            r = table.get(cid)
            if not r or r in ("OOF", "UNSUPPORTED", "MISSING") or " " not in r:
                res["skipped"] += 1; continue
            fuel, term = r.split(" ", 1)
            nm = f"xc_{which}_{cid}"
            names[nm] = (l, which, term)
            if which == "go":
                lhs = f"run_top {qterm(qv)} {EK[t[2]]} {toks} spn_plain {int(fuel)} {mode} {gt}"
            else:
                lhs = f"sem_top {EK[t[2]]} {toks} spn_plain {int(fuel)} {gt}"
            out.append(f"Example {nm} : {lhs} = {term}.\nProof. vm_compute. reflexivity. Qed.")
    d = os.path.join(WORK, "xcheck"); os.makedirs(d, exist_ok=True)
    path = os.path.join(d, f"{tag}_cases.v")
    open(path, "w").write("\n".join(out) + "\n")
    rc, log = sh(f"coqc -noglob -Q {COQ} Chum {path}", timeout=600)
    res["checked"] = len(names)
    res["log"] = log[-1500:]
    if rc != 0:
        # find the failing example: compile one by one only those after the last accepted (cheap: bisect by truncation)
        m = re.search(r"line (\d+)", log)
        bad = None
        if m:
            ln = int(m.group(1))
            text = open(path).read().split("\n")
            for i in range(min(ln, len(text)) - 1, -1, -1):
                mm = re.match(r"Example (\S+) :", text[i])
                if mm: bad = mm.group(1); break
        if bad and bad in names:
            res["failures"].append((names[bad][0], names[bad][1], names[bad][2]))
        else:
            res["failures"].append((only[0], "?", log[-400:]))
    for f in os.listdir(d):
        if f.startswith(tag + "_cases."):
            try: os.remove(os.path.join(d, f))
            except OSError: pass
    return res
