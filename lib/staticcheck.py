"""C11, static family: statically typed (unboxed) memoized grammars next to their unmemoized twins
(/verif/staticharness). The boxed builder of the main harness gives every node its own address, so collisions
between memoized parsers (nested, adjacent, cloned, zero-sized) can only show here."""
import itertools, random, subprocess
from common import *
from gen import sx

EXE = os.path.join(ROOT, "staticharness", "target", "debug", "staticharness")
ALPHAS = {"C11": {0: "ab", 1: "ab", 2: "ab", 3: "f([x", 4: "abcd", 5: "abc", 6: "ab", 7: "abc", 8: "ab", 9: "19-", 10: "ab+"},
          # C12: second define refused; clone / drop / box of recursive handles; mutual declare/define
          "C12": {20: "()x", 21: "()", 22: "()[]"},
          # C19: statically typed outputs with destructors - a zero-sized one and a one-byte one - through group([..;N]), collect_exactly,
          # tuple group, Vec collect, folds; parse and check; every value created must be dropped exactly once
          "C19": {30: "ab", 31: "ab", 32: "ab", 33: "ab"},
          # C10 / C07: the input types driven through the `Input` trait: IoInput answers every request history by position (40);
          # Input::map cursors (reached through next_maybe / next_ref) and the span of every pair of them = the model's span formula (41)
          "C10": {40: "abc", 41: "abc"},
          "C07": {41: "abc"}}

def build(timeout=900):
    d = os.path.join(ROOT, "staticharness")
    lock = os.path.join(d, "Cargo.lock")
    if not os.path.exists(lock): shutil.copy("/repo/Cargo.lock", lock)
    rc, out = sh("cargo build --offline 2>&1 | tail -30", cwd=d, timeout=timeout)
    return rc == 0 and os.path.exists(EXE), out

def run(pid, tier, seed):
    ok, log = build()
    res = dict(cases=0, same=0, violations=[], build_broken=[])
    if not ok:
        res["build_broken"].append("staticharness does not build against /repo: " + log[-500:]); return res
    rng = random.Random(seed)
    lines, meta = [], {}
    cid = 0
    maxlen = (4 if tier == "quick" else 6) + (2 if pid == "C12" else 0)
    for sid, al in ALPHAS[pid].items():
        for n in range(maxlen + 1):
            for t in itertools.product(al, repeat=n):
                cid += 1
                lines.append(sx([cid, sid, [ord(c) for c in t]])); meta[cid] = (sid, "".join(t))
        for _ in range(50 if tier == "quick" else 500):
            t = [rng.choice(al) for _ in range(rng.randint(maxlen + 1, 12))]
            cid += 1
            lines.append(sx([cid, sid, [ord(c) for c in t]])); meta[cid] = (sid, "".join(t))
    os.makedirs(WORK, exist_ok=True)
    p = os.path.join(WORK, f"{pid}.static.cases")
    open(p, "w").write("\n".join(lines) + "\n")
    try:
        out = subprocess.run([EXE, p], stdout=subprocess.PIPE, stderr=subprocess.DEVNULL, env=ENV, timeout=600).stdout.decode("utf-8", "replace")
    except subprocess.TimeoutExpired:
        out = ""
    os.remove(p)
    got = {}
    for l in out.splitlines():
        sp = l.split(" ", 1)
        if len(sp) == 2 and sp[0].isdigit(): got[int(sp[0])] = sp[1]
    bad = []
    for c, (sid, s) in meta.items():
        r = got.get(c, "MISSING")
        res["cases"] += 1
        if r.startswith("same"): res["same"] += 1
        else: bad.append((c, sid, s, r))
    if bad:
        c, sid, s, r = min(bad, key=lambda x: (len(x[2]), x[1]))
        res["violations"].append(("oracle", ("a statically typed memoized grammar differs from its unmemoized twin" if pid == "C11" else
                                             "an output value with a destructor (zero-sized or not) is leaked or dropped twice" if pid == "C19" else
                                             "a recursive handle (second define / clone / drop / box / mutual declare-define) misbehaves"),
                                  dict(static_case=sx([1, sid, [ord(ch) for ch in s]]), static_id=sid, input=s, result=r[:600], n_failures=len(bad),
                                       note="see /verif/staticharness/src/main.rs for the grammar with this static-id; M = memoized, P = plain")))
    return res
