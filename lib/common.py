"""Shared plumbing for ./check: building the three executables, running case files through them
in parallel, parsing result lines."""
import os, subprocess, sys, time, json, hashlib, re, shutil, signal
from concurrent.futures import ThreadPoolExecutor

ROOT = os.path.dirname(os.path.dirname(os.path.abspath(__file__)))
COQ = os.path.join(ROOT, "coq")
EXTRACT = os.path.join(ROOT, "extract")
HARNESS = os.path.join(ROOT, "harness")
WORK = os.path.join(ROOT, "work")
REPLAYS = os.path.join(ROOT, "replays")
EVIDENCE = os.path.join(ROOT, "evidence")
NPROC = min(16, os.cpu_count() or 4)

ENV = dict(os.environ, CARGO_NET_OFFLINE="true", RUST_BACKTRACE="0")

def sh(cmd, cwd=None, timeout=None, env=None):
    p = subprocess.run(cmd, cwd=cwd, shell=isinstance(cmd, str), stdout=subprocess.PIPE,
                       stderr=subprocess.STDOUT, timeout=timeout, env=env or ENV)
    return p.returncode, p.stdout.decode("utf-8", "replace")

# ----------------------------------------------------------------------------------------------
# builds
# ----------------------------------------------------------------------------------------------
def build_coq(clean=False, timeout=1500):
    """Full .vo build of the development (never -vos/-vok). Returns (ok, log)."""
    if clean:
        sh("make clean >/dev/null 2>&1; rm -f Makefile Makefile.conf .Makefile.d", cwd=COQ)
    if True:      # always: the project file may list new files (cheap; make still rebuilds by timestamps only)
        rc, out = sh("coq_makefile -f _CoqProject -o Makefile", cwd=COQ)
        if rc != 0: return False, out
    rc, out = sh(f"make -j{NPROC}", cwd=COQ, timeout=timeout)
    return rc == 0, out

def build_runner(timeout=300):
    rc, out = sh("./build.sh", cwd=EXTRACT, timeout=timeout)
    return rc == 0 and os.path.exists(os.path.join(EXTRACT, "runner")), out

def build_harness(timeout=1800):
    lock = os.path.join(HARNESS, "Cargo.lock")
    if not os.path.exists(lock):
        shutil.copy("/repo/Cargo.lock", lock)
    rc, out = sh("cargo build --offline 2>&1 | tail -40", cwd=HARNESS, timeout=timeout)
    exe = os.path.join(HARNESS, "target", "debug", "harness")
    return rc == 0 and os.path.exists(exe), out

HARNESS_EXE = os.path.join(HARNESS, "target", "debug", "harness")
RUNNER_EXE = os.path.join(EXTRACT, "runner")

# ----------------------------------------------------------------------------------------------
# running case files
# ----------------------------------------------------------------------------------------------
def _run_shard(args):
    kind, path, out, env, timeout = args
    exe = HARNESS_EXE if kind == "impl" else RUNNER_EXE
    e = dict(ENV); e.update(env)
    if timeout > 600: e.setdefault("HARNESS_CASE_TIMEOUT_S", str(timeout))
    with open(out, "wb") as f:
        # own process group: on a timeout the front end AND its workers are killed (no orphaned spinning workers)
        p = subprocess.Popen([exe, path], stdout=f, stderr=subprocess.DEVNULL, env=e, start_new_session=True)
        try:
            p.wait(timeout=timeout)
        except subprocess.TimeoutExpired:
            pass
        finally:
            try: os.killpg(p.pid, signal.SIGKILL)
            except OSError: pass
            try: p.wait(timeout=10)
            except Exception: pass
    return out

def run_cases(kind, lines, tag, env=None, timeout=600):
    """Run `lines` (case strings) through impl / model; returns {id: result-string}.
    A case whose worker hung is reported as TIMEOUT and the remainder of its shard is re-run."""
    os.makedirs(WORK, exist_ok=True)
    env = env or {}
    results = {}
    pending = list(lines)
    rounds = 0
    while pending and rounds < 3:
        rounds += 1
        n = max(1, min(NPROC, len(pending) // 50 + 1))
        shards = [pending[i::n] for i in range(n)]
        jobs = []
        for i, sh_lines in enumerate(shards):
            path = os.path.join(WORK, f"{tag}.{kind}.{rounds}.{i}.cases")
            with open(path, "w") as f:
                f.write("\n".join(sh_lines) + "\n")
            jobs.append((kind, path, path + ".out", env, timeout))
        with ThreadPoolExecutor(max_workers=n) as ex:
            outs = list(ex.map(_run_shard, jobs))
        nxt = []
        for sh_lines, out in zip(shards, outs):
            got = {}
            with open(out, "r", errors="replace") as f:
                for l in f:
                    l = l.rstrip("\n")
                    sp = l.split(" ", 1)
                    if len(sp) == 2 and sp[0].isdigit():
                        got[int(sp[0])] = sp[1]
            ids = [case_id(l) for l in sh_lines]
            missing = [(i, l) for i, l in zip(ids, sh_lines) if i not in got]
            results.update(got)
            if missing:
                # the first missing case is the one that hung or crashed the worker
                results[missing[0][0]] = "TIMEOUT" if kind == "impl" else "OOF"
                nxt.extend(l for _, l in missing[1:])
        pending = nxt
        for j in jobs:
            for p in (j[1], j[2]):
                try: os.remove(p)
                except OSError: pass
    for l in pending:
        results[case_id(l)] = "TIMEOUT"
    return results

def case_id(line):
    return int(line[1:line.index(" ")])

# ----------------------------------------------------------------------------------------------
# result lines
# ----------------------------------------------------------------------------------------------
class Res:
    __slots__ = ("kind", "val", "errs", "raw", "pulled", "drops")
    def __init__(self, raw):
        self.raw = raw
        self.val = None
        self.errs = []
        self.pulled = None
        self.drops = None
        m = re.search(r" L(\d+) D([01]) O(\d+)$", raw)
        if m:                       # drop accounting (FORMAT v3): live after the case, double-drop flag, tracked values in the output
            self.drops = (int(m.group(1)), int(m.group(2)), int(m.group(3)))
            raw = raw[:m.start()]
        m = re.search(r" P(\d+|!)$", raw)
        if m:                       # stream kinds: items pulled from the underlying iterator
            self.pulled = m.group(1)
            raw = raw[:m.start()]
        if raw.startswith("OK "):
            self.kind = "OK"
            i = raw.rindex(" E[")
            self.val = raw[3:i]
            self.errs = split_errs(raw[i + 3:-1])
        elif raw.startswith("FAIL "):
            self.kind = "FAIL"
            self.errs = split_errs(raw[raw.index("E[") + 2:-1])
        else:
            self.kind = raw.split(" ")[0] if raw else "MISSING"
    def last(self):
        return self.errs[-1] if self.errs else None

def split_errs(s):
    return s.split(";") if s else []

def err_span(e):
    """(s, e) of an error string 's..e:...' (None when not parseable, e.g. '!')."""
    m = re.match(r"^(\d+)\.\.(\d+):", e)
    return (int(m.group(1)), int(m.group(2))) if m else None

def err_found(e):
    m = re.search(r"F(-|\d+):", e)
    if not m: return "?"
    return None if m.group(1) == "-" else int(m.group(1))

def sha(s):
    return hashlib.sha256(s.encode()).hexdigest()[:12]
