"""Per-property case generation, observables and oracles."""
import random, sys, os
sys.path.insert(0, os.path.join(os.path.dirname(os.path.dirname(os.path.abspath(__file__))), "gen"))
from gen import *
from common import Res, err_span, err_found
import sexp

# ----------------------------------------------------------------------------------------------
# observables
# ----------------------------------------------------------------------------------------------
def obs_vv(r):       # verdict + value
    return (r.kind, r.val)
def obs_full(r):     # verdict + value + all errors
    return (r.kind, r.val, tuple(r.errs))
def obs_errs(r):     # verdict + all errors (check mode has no value)
    return (r.kind, tuple(r.errs))
def obs_last(r):     # verdict; on failure the last (primary) error
    return (r.kind, r.last() if r.kind == "FAIL" else None)
def obs_emis(r):     # verdict; on success the reported (non-fatal) errors
    return (r.kind, tuple(r.errs) if r.kind == "OK" else None)
def obs_vv_emis(r):
    return (r.kind, r.val, tuple(r.errs) if r.kind == "OK" else None)
def obs_vv_emis_last(r):   # value + emissions on success, primary error on failure
    return (r.kind, r.val, tuple(r.errs) if r.kind == "OK" else r.last())

def sem_view(obs, r):
    """The same observable computed from the specification's result line (on failure sem prints
    only the primary error)."""
    return obs(r)

class Spec:
    def __init__(self, pid, ctors, obs, sem_obs=None, ekinds=("rich",), ikinds=("str",), modes=("parse", "check"),
                 no_not=False, depth=(1, 4), n_quick=500, n_thorough=6000, slices=True, extra=None,
                 nontrivial=None, rule="", alpha=None, gen_hook=None, cross=None, emit_bias=0.0):
        self.pid, self.ctors, self.obs = pid, ctors, obs
        self.sem_obs = sem_obs or obs
        self.ekinds, self.ikinds, self.modes = ekinds, ikinds, modes
        self.no_not, self.depth = no_not, depth
        self.n_quick, self.n_thorough = n_quick, n_thorough
        self.slices = slices
        self.extra = extra              # extra oracle on the implementation result alone
        self.nontrivial = nontrivial or (lambda g, inp: len(inp) > 0 and sexp.size(g) >= 4)
        self.rule = rule
        self.alpha = alpha or ALPHA
        self.gen_hook = gen_hook
        self.cross = cross              # oracle across the cases of one (grammar, input)
        self.emit_bias = emit_bias
        self.all_kinds = False
        self.extra_cases = None         # callable(rng, tier) -> [(grammar, input)] appended to the random stream
        self.deep = None                # callable(tier) -> [descriptor]; impl-only runs (too deep / long for the model's fuel)
        self.kind_cases = None          # callable(rng, tier) -> [(grammar, input, [ikinds])]: extra cases on specific input kinds
        self.universe = None            # dict(leaves, unary, binary): exhaustive small universe U(k), see universe_cases

    @staticmethod
    def inp_for_kind(ik, inp):
        # token inputs with their own spans: token i spans 3i+1 .. 3i+2 (gaps between all tokens and before the first)
        if ik in ("mapped", "mappedstream", "iter"):
            return [[t, 3 * i + 1, 3 * i + 2] for i, t in enumerate(inp)]
        if ik == "tree":
            # token trees: leaf = (t s e), group = ((G id children) s e); gapped spans, a group spans its children; ids in pre-order
            st = dict(pos=0, gid=2000000)
            def lay(items):
                out = []
                for t in items:
                    s0 = st["pos"] + 1
                    if is_group(t):
                        st["gid"] += 1; gid = st["gid"]
                        st["pos"] = s0
                        ch = lay(t[1])
                        st["pos"] += 1
                        out.append([["G", gid, ch], s0, st["pos"]])
                    else:
                        st["pos"] = s0 + 1
                        out.append([t, s0, s0 + 1])
                return out
            return lay(inp)
        return inp

    def cases(self, rng, tier, start_id=1):
        """Yields (id, line, meta) with meta = dict(g=..., inp=..., ikind, ekind, mode, group)."""
        n = self.n_quick if tier == "quick" else self.n_thorough
        G = Gen(rng, self.ctors, alpha=self.alpha, no_not=self.no_not, slices=self.slices)
        G.emit_bias = self.emit_bias
        cid = start_id
        group = 0
        extra = self.extra_cases(rng, tier) if self.extra_cases else []
        for gi in range(n + len(extra)):
            if gi < n:
                g = self.gen_hook(G, rng) if self.gen_hook else G.g(rng.randint(*self.depth))
                inps = inputs_for(rng, g, self.alpha, extra_alpha=([EURO] if (rng.random() < 0.2 and not self.all_kinds) else []) + (list(WS) if has_head(g, {"Padded"}) else []), trees="tree" in self.ikinds)
            else:
                g, one = extra[gi - n]
                inps = [one]
            eks = list(self.ekinds) if (len(self.ekinds) == 1 or rng.random() < 0.35) else [self.ekinds[0]]
            iks = list(self.ikinds) if (self.all_kinds or rng.random() < 0.5) else [self.ikinds[0]]
            for inp in inps:
                group += 1
                for ik in iks:
                    for ek in eks:
                        for md in self.modes:
                            yield cid, sx([cid, ik, ek, md, g, self.inp_for_kind(ik, inp)]), dict(g=g, inp=inp, ikind=ik, ekind=ek, mode=md, group=group)
                            cid += 1
        for g, inp in (universe_cases(self.universe, tier) if self.universe else []):
            group += 1
            for md in self.modes:
                yield cid, sx([cid, self.ikinds[0], self.ekinds[0], md, g, self.inp_for_kind(self.ikinds[0], inp)]), dict(g=g, inp=inp, ikind=self.ikinds[0], ekind=self.ekinds[0], mode=md, group=group, universe=True)
                cid += 1
        for g, inp, kinds in (self.kind_cases(rng, tier) if self.kind_cases else []):
            group += 1
            for ik in kinds:
                for md in self.modes:
                    yield cid, sx([cid, ik, self.ekinds[0], md, g, self.inp_for_kind(ik, inp)]), dict(g=g, inp=inp, ikind=ik, ekind=self.ekinds[0], mode=md, group=group)
                    cid += 1

# ----------------------------------------------------------------------------------------------
# exhaustive small universes: every grammar with at most k combinator nodes over a reduced constructor set, on every
# input up to length L over {a, b}.  Quick: k = 3, L = 3; thorough: k = 4 for a sample of the binary forms, L = 4.
# ----------------------------------------------------------------------------------------------
U_LEAVES = ["Any", "End", "Empty", ["Just", [A]], ["Just", [A, B]], ["OneOf", [A, B]], ["NoneOf", [A]], ["Custom", [A], 7]]
U_UNARY = [lambda x: ["Map", "FDup", x], lambda x: ["Ignored", x], lambda x: ["OrNot", x], lambda x: ["Not", x], lambda x: ["Rewind", x],
           lambda x: ["Filter", ["PTokIn", [A]], x], lambda x: ["TryMap", ["PTokIn", [A]], "FId", 3, x],
           lambda x: ["RepUnit", ["IRep", x, 0, "inf"]], lambda x: ["Collect", "CVec", ["IRep", x, 0, "inf"]],
           lambda x: ["Collect", "CCount", ["IRep", x, 1, 2]], lambda x: ["ToSpan", x], lambda x: ["CollectExactly", 2, ["IRep", x, 0, "inf"]]]
U_BINARY = [lambda x, y: ["Then", x, y], lambda x, y: ["Or", x, y], lambda x, y: ["AndIs", x, y], lambda x, y: ["IgnoreThen", x, y],
            lambda x, y: ["ThenIgnore", x, y], lambda x, y: ["Collect", "CVec", ["ISep", x, y, 0, "inf", 0, 1]],
            lambda x, y: ["Foldl", x, ["IRep", y, 0, "inf"], 4]]
def U(leaves=(), unary=(), binary=()):
    return dict(leaves=U_LEAVES + list(leaves), unary=U_UNARY + list(unary), binary=U_BINARY + list(binary))
_UCACHE = {}
def universe_cases(u, tier):
    key = (id(u), tier)
    if key in _UCACHE: return _UCACHE[key]
    k = 3
    gs = []
    for size in range(1, k + 1):
        gs.extend(enum_grammars(size, u["leaves"], u["unary"], u["binary"]))
    if tier != "quick":        # size 4: unary over size 3
        for un in u["unary"]:
            for x in enum_grammars(3, u["leaves"], u["unary"], u["binary"]):
                gs.append(un(x))
    if u.get("post"): gs = [u["post"](g) for g in gs]
    # repetition items must consume (the property classes exclude the others; a configured repetition of a nullable item
    # used as a unit parser has no progress assertion and loops forever)
    def wf(x):
        if isinstance(x, list):
            if x and x[0] in ("IRep", "IRepCfg", "ISep") and not consuming(x[1]): return False
            return all(wf(a) for a in x)
        return True
    gs = [g for g in gs if wf(g)]
    inputs = list(all_strings([A, B], 3 if tier == "quick" else 4))
    out = [(g, inp) for g in gs for inp in inputs]
    _UCACHE[key] = out
    return out

# ----------------------------------------------------------------------------------------------
# extra oracles (on the implementation result alone)
# ----------------------------------------------------------------------------------------------
def contract_oracle(meta, impl):
    """C03: output/error consistency of a ParseResult."""
    if impl.kind == "FAIL" and len(impl.errs) == 0:
        return "result without output carries no error"
    return None

def span_wf_oracle(meta, impl):
    """C06: the primary error's span lies inside the input, start <= end; found is the token at
    the start of the span and is None only at the end of input."""
    if impl.kind != "FAIL" or meta["ekind"] == "empty" or meta["ikind"] == "tree": return None      # (token trees: gapped, nested spans)
    e = impl.last()
    sp = err_span(e)
    n = len(meta["inp"])
    if sp is None: return f"primary error span not on a character boundary / malformed: {e}"
    if not (sp[0] <= sp[1] <= n): return f"primary error span {sp} outside input of length {n}"
    user_errs = has_head(meta["g"], {"Custom", "TryMap", "TryMapWith", "MapErr", "Prog"})   # Simple cannot mark user-supplied errors
    if (meta["ekind"] == "rich" and ":C" not in e) or (meta["ekind"] == "simple" and not user_errs):
        f = err_found(e)
        want = meta["inp"][sp[0]] if sp[0] < n else None
        if f != want: return f"found={f} but token at span start {sp[0]} is {want}"
    return None

def drop_oracle(meta, impl):
    """C19: after the parse (result, parser and input dropped) no tracked value is live, none was dropped twice, and
    the output holds exactly the tracked values it shows."""
    if impl.drops is None: return None
    live, dbl, out = impl.drops
    if dbl: return "a value was dropped twice"
    if live: return f"{live} value(s) created by the mappers were never dropped (leak)"
    shown = (impl.val or "").replace("(", " ").replace(")", " ").split().count("K") if impl.kind == "OK" else 0
    if out != shown: return f"output holds {out} tracked values but shows {shown}"
    return None

def pratt_flatten_oracle(meta, impl):
    """C09: flattening the tree yields the consumed tokens in order (every fold keeps its operands and operator in input order;
    checked when atoms and operators keep their tokens and the whole input was consumed)"""
    import re as _re
    if impl.kind != "OK" or impl.val in (None, "-") or "To" in sx(meta["g"]): return None
    toks = [int(x) for x in _re.findall(r"T(\d+)", impl.val)]
    if toks != list(meta["inp"]):
        return f"the tree's tokens in order {toks} are not the input {list(meta['inp'])}"
    return None

def has_head(g, heads):
    if isinstance(g, str): return g in heads
    if isinstance(g, (list, tuple)):
        return bool(g and isinstance(g[0], str) and g[0] in heads) or any(has_head(a, heads) for a in g if isinstance(a, (list, tuple, str)))
    return False

BACKTRACK = {"Or", "Choice", "ChoiceVec", "OrNot", "Not", "AndIs", "Rewind", "Filter", "TryMap", "RepUnit", "Collect",
             "CollectExactly", "Foldl", "Foldr", "FoldlWith", "FoldrWith", "RecoverVia", "RecoverSkipUntil", "RecoverSkipRetry"}

def nt_backtrack(g, inp):
    return len(inp) > 0 and has_head(g, BACKTRACK)

def c08_hook(G, rng):
    if rng.random() < 0.3:
        ps = rng.sample(DELIMS, rng.randint(1, 3))
        nd = ["NestedDelims", ps[0][0], ps[0][1], [list(x) for x in ps[1:]]]
        inner = G.g(rng.randint(1, 2))
        rec = ["RecoverVia", ["DelimitedBy", inner, ["Just", [ps[0][0]]], ["Just", [ps[0][1]]]], nd]
        c = rng.random()
        if c < 0.4: return rec
        if c < 0.7: return ["Collect", "CVec", ["IRep", rec, 0, "inf"]]
        return ["Then", rec, G.g(1)]
    return G.g(rng.randint(1, 4))

def c17_hook(G, rng):
    """now and then: contexts nested three and four deep with a label that recurs around a different one (A > B > A), the failure
    lying beyond the first token of all of them"""
    if rng.random() < 0.12:
        a, b = rng.sample(range(1, 6), 2)
        labels = rng.choice([[a, b, a], [a, b, a, b], [a, a, b, a], [a, b, b, a]])
        t = lambda: ["Just", [rng.choice([A, B, C])]]
        body = rng.choice([["Then", t(), t()], ["Then", t(), G.g(1)], ["Then", t(), ["Or", ["Then", t(), t()], t()]]])
        for l in reversed(labels):
            body = ["Labelled", l, 1, ["Then", t(), body]]
        return body if rng.random() < 0.6 else ["Or", body, G.g(1)]
    return G.g(rng.randint(1, 4))
def c18_hook(G, rng):
    """now and then: two routes to the same position that leave different inspector states behind - a lookahead / an alternative /
    an optional under with_state next to one on the outer state - followed by a state observer"""
    if rng.random() < 0.12:
        n = rng.randint(1, 2)
        x = lambda: rng.choice(["Any", ["OneOf", [A, B]], ["NoneOf", [C]]]) if n == 1 else rng.choice([["Then", "Any", "Any"], ["Just", [A, B]], ["Then", ["OneOf", [A, B]], "Any"]])
        ws = lambda g: ["WithState", rng.randint(1, 9), g]
        two = rng.choice([lambda: ["AndIs", x(), ws(x())], lambda: ["AndIs", ws(x()), x()], lambda: ["Or", ["Then", ws(x()), ["Just", [C]]], x()],
                          lambda: ["Then", ["Rewind", ws(x())], x()], lambda: ["Then", ["OrNot", ["Then", x(), ["Just", [C]]]], ws(x())]])()
        obs = rng.choice([["MapWith", "MWState", "Any"], ["MapWith", "MWAll", ["OrNot", "Any"]], ["Prog", ["CState", "CNext", "CState"], 3], ["MapWith", "MWState", "Empty"]])
        return ["Then", two, obs] if rng.random() < 0.7 else ["Then", ["MapWith", "MWState", two], obs]
    return G.g(rng.randint(1, 4))
def c04_hook(G, rng):
    c = rng.random()
    if c < 0.12: return ["Then", G.pratt(), G.g(1)] if rng.random() < 0.5 else ["IgnoreThen", G.g(1), G.pratt()]
    if c < 0.22: return G.rec(3)
    if c < 0.32: return G.memoize(G.g(rng.randint(2, 3)), 0.4)
    return G.g(rng.randint(1, 4))
def c04_trees(rng, tier):
    """nested inputs: parse vs check on token trees"""
    G = Gen(rng, CORE + ITER + EMIT + ["RecoverVia"] + ["NestedIn"] * 6, alpha=ALPHA, slices=False)
    G.mws = ["MWSpan", "MWCtx"]; G.emit_bias = 0.15
    out = []
    for _ in range(120 if tier == "quick" else 1500):
        g = c16_hook(G, rng)
        for inp in inputs_for(rng, g, ALPHA, n_valid=2, n_mut=2, n_rand=1, trees=True):
            out.append((g, inp, ["tree"]))
    return out

C01_CTORS = CORE + ["CollectOrNot"] * 2 + ["AnyRef", "SelectRef", "Prog"]
C02_CTORS = ["Any", "Just", "OneOf", "NoneOf", "Then", "Or", "Map", "Filter", "OrNot", "To"] + ITER * 3 + ["MapWith", "ToSlice", "WithCtx", "IgnoreWithCtx", "JustCfg"] + ["CollectOrNot", "RepUnitCfg", "IntoIter", "IntoIter"]

PLAIN_KINDS = ("str", "slice", "array", "stream", "bstream", "mapspan", "withctx", "bytes", "io", "graphemes", "gslice")
ALL_KINDS = tuple(k for k in PLAIN_KINDS if k not in ("graphemes", "gslice")) + ("mapped", "mappedstream", "iter")
# extended grapheme clusters as tokens (FORMAT v4): single code points and the table entries 3000000.. (CR LF, e + acute, a flag, a ZWJ family, Hangul LVT, a + 2 marks)
GALPHA = [97, 98, 99, 233, 13, 10, 3000000, 3000000, 3000001, 3000002, 3000003, 3000004, 3000005, 3000006, 3000007, 0x928, 49]
def c10_graphemes(rng, tier):
    G = Gen(rng, [c for c in CORE + ITER + RECOVER], alpha=GALPHA, slices=True)
    out = []
    for _ in range(250 if tier == "quick" else 3000):
        g = G.g(rng.randint(1, 4))
        for inp in inputs_for(rng, g, GALPHA, n_valid=2, n_mut=2, n_rand=2):
            if any(a == 13 and b == 10 for a, b in zip(inp, inp[1:])): continue      # CR LF would merge into one cluster
            out.append((g, inp, ["graphemes", "gslice"]))
    return out

# C01 on the grapheme kinds: clusters together with their proper pieces (e / e + acute, a / a + 2 marks, CR, LF / CR LF), so that
# a class or sequence given as text (&str / &Graphemes, see harness build::v_one_of_gr) is told apart from its substrings
GALPHA2 = GALPHA + [101, 120, 3000001, 3000005]
def c01_graphemes(rng, tier):
    G = Gen(rng, [c for c in C01_CTORS if c not in ("AnyRef", "SelectRef", "Prog")], alpha=GALPHA2, slices=True)
    out = []
    for _ in range(150 if tier == "quick" else 2500):
        g = G.g(rng.randint(1, 3))
        for inp in inputs_for(rng, g, GALPHA2, n_valid=2, n_mut=2, n_rand=2):
            if any(a == 13 and b == 10 for a, b in zip(inp, inp[1:])): continue
            out.append((g, inp, ["graphemes", "gslice"]))
    # a cluster next to its proper pieces, every class written three ways (the harness picks the form of the sequence argument from its content)
    for cl, pieces in ((3000001, [101]), (3000005, [97]), (3000000, [13, 10]), (3000006, [0x928]), (3000007, [49])):
        for x in (120, 121, 122, 98, 99, 233):
            for mk in (lambda c: ["OneOf", c], lambda c: ["NoneOf", c], lambda c: ["Collect", "CVec", ["IRep", ["OneOf", c], 0, "inf"]],
                       lambda c: ["Then", ["Or", ["OneOf", c], ["To", 1, "Any"]], "End"], lambda c: ["Then", ["Not", ["OneOf", c]], "Any"]):
                g = mk([cl, x])
                for inp in [[p] for p in pieces] + [[cl], [x], [pieces[0], x], [x, cl], []]:
                    out.append((g, inp, ["graphemes", "gslice"]))
    return out

def c06_trees(rng, tier):
    """C06 on nested inputs: a nested_in tried after something else has already failed at the same or a later position"""
    G = Gen(rng, [c for c in CORE + ITER + ["NestedIn"] * 6 if c != "Not"], alpha=ALPHA, slices=False, no_not=True)
    G.mws = ["MWSpan", "MWCtx"]
    out = []
    for _ in range(150 if tier == "quick" else 2000):
        inner = G.g(rng.randint(1, 2))
        n = [rng.choice(["NestedIn", "NestedVia"]), inner]
        first = rng.choice([["Then", ["Just", [A]], ["Then", ["Just", [B]], ["Just", [C]]]], ["Then", "Any", ["Just", [B]]], ["TryMap", "PFalse", "FId", 3, ["Then", "Any", "Any"]],
                            ["Then", ["OrNot", ["Then", ["Just", [A]], ["Just", [B]]]], ["Just", [C]]], G.g(2)])
        c = rng.random()
        if c < 0.5: g = ["Or", first, ["Then", n, G.g(1)]]
        elif c < 0.75: g = ["Then", ["OrNot", first], n]
        else: g = ["Then", ["Collect", "CVec", ["IRep", ["Then", ["Just", [A]], ["Just", [B]]], 0, "inf"]], ["Or", n, ["Just", [C]]]]
        for inp in inputs_for(rng, g, ALPHA, n_valid=2, n_mut=3, n_rand=2, trees=True):
            out.append((g, inp, ["tree"]))
    return out

def c10_cross(groups):
    """C10: the same grammar and token sequence through every input kind. Kinds with index/offset spans must agree
    completely (the harness prints all spans as token indices); kinds whose tokens carry their own spans must agree on the
    verdict. A Stream must not pull more items than exist."""
    bad = []
    for key, rs in groups.items():
        plain = {(m["ikind"]): r for (cid, m, r) in rs if m["ikind"] in PLAIN_KINDS and r.kind in ("OK", "FAIL")}
        ref = plain.get("slice") or (next(iter(plain.values())) if plain else None)
        for cid, m, r in rs:
            if r.kind not in ("OK", "FAIL"): continue
            if ref is None: continue
            if m["ikind"] in PLAIN_KINDS:
                if (r.kind, r.val, tuple(r.errs)) != (ref.kind, ref.val, tuple(ref.errs)):
                    bad.append((cid, f"{m['ikind']} differs from the reference kind: {r.raw} vs {ref.raw}"))
            elif r.kind != ref.kind:
                bad.append((cid, f"{m['ikind']} verdict {r.kind} differs from the reference kind ({ref.kind})"))
            if r.pulled is not None and (r.pulled == "!" or int(r.pulled) > len(m["inp"])):
                bad.append((cid, f"stream pulled {r.pulled} items from an iterator of {len(m['inp'])}"))
    return bad

def c10_long(rng, tier):
    """inputs longer than Stream's 512-token batch, with backtracking across the boundary"""
    out = []
    g1 = ["Then", ["Collect", "CCount", ["IRep", ["Or", ["Then", ["Just", [A]], ["Just", [B]]], ["Just", [A]]], 0, "inf"]], ["OrNot", ["Just", [C]]]]
    g2 = ["Or", ["Then", ["RepUnit", ["IRep", ["Just", [A]], 0, "inf"]], ["Just", [B]]], ["Collect", "CCount", ["IRep", "Any", 0, "inf"]]]
    g3 = ["Collect", "CCount", ["ISep", ["Just", [A]], ["Just", [B]], 0, "inf", 0, 1]]
    for n in ([510, 511, 512, 513, 1025] if tier == "quick" else [500, 510, 511, 512, 513, 514, 1023, 1024, 1025, 1300]):
        out.append((g1, [A] * n + [A, B] * 3 + [C]))
        out.append((g1, ([A, B] * (n // 2)) + [A]))
        out.append((g2, [A] * n + [C]))
        out.append((g2, [A] * n + [B]))
        out.append((g3, ([A, B] * (n // 2)) + [A]))
    return out

SPECS = {
    "C01": Spec("C01", C01_CTORS + ["ToSpan", "MapWith", "ExtWrap"], obs_vv, ekinds=("rich", "empty", "simple"), ikinds=("str", "slice", "io", "stream"),
                nontrivial=nt_backtrack,
                rule="random grammars (depth 1-4) over the C01 constructor set with span captures and extension parsers, on &str / &[T] / IoInput / Stream; inputs sampled from the "
                     "grammar's language, mutated (insert/delete/substitute), truncated, extended, plus random strings; "
                     "distinct = distinct (grammar, input); non-trivial = non-empty input and the grammar contains a "
                     "choice / option / lookahead / filter / try_map node"),
    "C02": Spec("C02", C02_CTORS, obs_vv, ekinds=("rich", "empty"), ikinds=("str", "slice"), depth=(2, 4),
                nontrivial=lambda g, inp: len(inp) > 0 and has_head(g, set(ITER)),
                rule="random grammars whose inner nodes are mostly repeated/separated_by with every finisher "
                     "(collect Vec/usize/(), collect_exactly, foldl, foldr, *_with, unit) and adaptors (enumerate, map, "
                     "map_with), bounds 0..5, both flags; non-trivial = non-empty input and an iteration node present"),
    "C03": Spec("C03", CORE + ITER + RECOVER + EMIT + ["ExtWrap"] + ["Lazy"] * 2, obs_errs, sem_obs=lambda r: (r.kind,), ekinds=("rich", "empty"), extra=contract_oracle, ikinds=("str", "slice", "io", "stream"),
                nontrivial=lambda g, inp: len(inp) > 0,
                rule="C01/C02/C08 grammars, with lazy() at random nodes (also at the top: the only way to accept a proper prefix); each sampled accepted input is also run extended by one token; "
                     "non-trivial = non-empty input"),
    "C04": Spec("C04", CORE + SPANS + ITER + ["RepUnit"] * 3 + EMIT + RECOVER + DECOR + CTX + ["ExtWrap"] * 3 + ["Skip", "NestedDelims", "Lazy"] + ["IntoIter"] * 3 + ["CollectOrNot", "RepUnitCfg", "Padded", "Prog"], obs_errs,
                gen_hook=lambda G, rng: c04_hook(G, rng), sem_obs=lambda r: (r.kind,), emit_bias=0.2,
                ekinds=("rich", "simple", "empty"), ikinds=("str", "slice"),
                nontrivial=lambda g, inp: len(inp) > 0 and has_head(g, {"IgnoreThen", "ThenIgnore", "Ignored", "To", "ToSlice",
                    "ToSpan", "DelimitedBy", "PaddedBy", "RepUnit", "Filter", "TryMap", "Validate", "Collect", "ExtWrap"}),
                rule="grammars over every modelled constructor (Pratt tables, recursion, memoization, nested_delimiters, lazy, extension parsers included; nested inputs on token trees); each (grammar, input) is run through parse() and check(); "
                     "extension parsers (Ext over an ExtParser with a separate check path through InputRef::parse / InputRef::check) at random nodes; "
                     "non-trivial = non-empty input and an eliding / mode-forcing combinator present"),
    "C05": Spec("C05", CORE + ITER + ["RepUnit"] * 3 + EMIT * 6 + RECOVER * 2 + ["ExtWrap", "CollectOrNot", "IntoIter", "Prog"] + ["MapWith", "Padded"] * 3 + ["FoldlWith"], obs_vv_emis, ekinds=("rich", "empty", "cheap"), emit_bias=0.3, n_quick=800,
                nontrivial=lambda g, inp: len(inp) > 0 and has_head(g, {"Validate", "RecoverVia", "RecoverSkipUntil", "RecoverSkipRetry"})
                                          and has_head(g, BACKTRACK),
                rule="C01/C02 grammars with validate emitters and recover_with at random positions; "
                     "non-trivial = an emitter and a backtracking site present, non-empty input"),
    "C06": Spec("C06", CORE + ITER + ["TryMapWith"] * 2 + ["CollectOrNot", "Prog"] + ["AnyRef", "SelectRef"] * 2, obs_last, ikinds=("str", "slice"), ekinds=("rich", "simple", "cheap", "empty"), no_not=True, extra=span_wf_oracle,
                nontrivial=lambda g, inp: has_head(g, BACKTRACK),
                rule="C01/C02 grammars without `not`, all four error types on every case; non-trivial = a backtracking site present"),
    "C07": Spec("C07", CORE + SPANS * 4 + ITER + ["Padded"] + ["AnyRef", "SelectRef"] * 2 + ["Prog"] * 2 + ["Pratt"] * 2, obs_vv, ekinds=("rich",), ikinds=("str", "slice", "mapped", "mappedstream", "iter"),
                nontrivial=lambda g, inp: len(inp) > 0 and has_head(g, {"MapWith", "ToSpan", "ToSlice", "TryMapWith", "FoldlWith", "FoldrWith", "IMapWith"}),
                rule="C01/C02 grammars with span / slice captures; multi-byte characters in the alphabet; "
                     "non-trivial = a capture node present and non-empty input"),
    "C08": Spec("C08", CORE + ITER + EMIT + RECOVER * 6 + ["NestedDelims"], obs_full, gen_hook=lambda G, rng: c08_hook(G, rng), sem_obs=obs_vv_emis, ekinds=("rich",), emit_bias=0.25, n_quick=800,
                nontrivial=lambda g, inp: has_head(g, set(RECOVER)),
                rule="C01/C02 grammars with recover_with(via_parser | skip_until | skip_then_retry_until) at random positions and nesting, and "
                     "via_parser(nested_delimiters(..)) (1..3 delimiter pairs) recovering delimited regions, with balanced / unbalanced / wrongly nested inputs; "
                     "non-trivial = a recovery node present"),
    "C09": Spec("C09", ["Just"], obs_vv, ekinds=("rich",), ikinds=("str", "slice"), n_quick=900, n_thorough=12000, extra=pratt_flatten_oracle,
                gen_hook=lambda G, rng: (G.pratt() if rng.random() < 0.8 else ["Then", G.pratt(), ["OrNot", ["Just", [rng.choice([59, 43, 42])]]]]),
                nontrivial=lambda g, inp: len(inp) >= 3,
                rule="operator tables of 1..6 operators over 6 symbols and 4 binding powers (same symbol may be prefix, postfix and infix), tuple and Vec "
                     "tables, optionally followed by a trailing token; inputs sampled as operand (op operand)* with prefix/postfix, mutated/truncated/extended; "
                     "observable: the fully structured tree with the span given to every fold; non-trivial = input of >= 3 tokens"),
    "C10": Spec("C10", [c for c in CORE + ITER + RECOVER if c not in ("ToSlice",)] + ["AnyRef", "SelectRef", "Prog"], obs_full, sem_obs=obs_vv_emis_last, ekinds=("rich",),
                ikinds=ALL_KINDS, modes=("parse",), slices=False, n_quick=350, n_thorough=4000, cross=c10_cross,
                nontrivial=lambda g, inp: len(inp) > 0 and has_head(g, BACKTRACK),
                rule="C01/C02/C08 grammars (without slice captures), every (grammar, input) through all 12 input kinds side by side: &str, &[T], &[T;N], "
                     "Stream, boxed Stream, map_span, with_context, &[u8], IoInput, and Input::map over a slice / over a Stream / IterInput with gapped token "
                     "spans; plus inputs of 510..1300 tokens with backtracking across Stream's 512-token batch boundary; tie per kind against the machine with "
                     "that kind's span function; cross-kind oracle: index-span kinds agree completely, own-span kinds agree on the verdict, streams never "
                     "pull more items than exist; plus grammars over extended grapheme clusters (single code points, CR LF, combining sequences, a flag, a ZWJ family, Hangul) through "
                     "&Graphemes and &[&Grapheme] side by side (the harness checks the token sequence against unicode-segmentation first); "
                     "non-trivial = non-empty input with a backtracking site"),
    "C11": Spec("C11", CORE + ITER + ["Validate"] + CTX + RECOVER + DECOR * 2, obs_full, sem_obs=obs_vv_emis_last, ekinds=("rich", "simple"), n_quick=700,
                gen_hook=lambda G, rng: (G.leftrec() if rng.random() < 0.10 else G.leftrec_wrapped() if rng.random() < 0.05 else G.memo_clones() if rng.random() < 0.2 else
                                         G.memoize(G.rec(3) if rng.random() < 0.2 else G.g(rng.randint(2, 4)), 0.35)),
                nontrivial=lambda g, inp: len(inp) > 0 and has_head(g, {"Memo"}),
                rule="C01/C02 grammars and guarded recursive grammars with memoized() inserted at random subsets of nodes (nested and adjacent placements "
                     "included; labelled / map_err decorations), one memoized parser cloned into several alternatives (clones share the cache key) with a "
                     "sheltering / rewriting / discarding combinator between the visits, plus the left-recursive family expr = (expr op atom).memoized() | atom; "
                     "oracle: the specification in which memoized() is the identity; non-trivial = a memoized node present, non-empty input"),
    "C12": Spec("C12", CORE + ["Rec"] * 4, obs_vv, ekinds=("rich",), ikinds=("str", "slice"), n_quick=700,
                gen_hook=lambda G, rng: (G.rec(3) if rng.random() < 0.85 else ["Then", G.rec(2), G.g(1)]),
                nontrivial=lambda g, inp: len(inp) >= 2,
                rule="guarded recursive grammars (recursive() and Recursive::declare/define; nested delimiters, right recursion, recursion under "
                     "repetition, mutually recursive pairs, recursion through map/labelled), inputs nested to sampled depths 0..4 then mutated; "
                     "plus implementation-only runs (beyond the model's fuel; expected verdict known by construction) nested 2*10^5 deep (thorough: 10^6) through "
                     "recursive(), declare/define and mutually recursive pairs of either, well-formed and with one closer missing, parse and check; plus static probes "
                     "(staticharness 20-22: a second define() panics and leaves the first definition in place; clone / drop / box of handles; mutual declare-define) "
                     "on all strings up to length 6 over the bracket alphabet; "
                     "non-trivial = input of >= 2 tokens"),
    "C15": Spec("C15", CORE + ITER + CTX * 5 + ["MapWith"] + ["RepUnitCfg"] * 4, obs_vv, ekinds=("rich",),
                nontrivial=lambda g, inp: len(inp) > 0 and has_head(g, set(CTX)),
                rule="C01/C02 grammars with with_ctx / ignore_with_ctx / then_with_ctx / map_ctx providers, configure()d just and "
                     "repeated (configure and try_configure: exactly / at_least / at_most / nothing set, and a try_configure whose closure returns an error for an "
                     "empty context) and context-reading map_with at random nodes; non-trivial = a provider present, non-empty input"),
    "C17": Spec("C17", CORE + ITER + DECOR * 6, obs_full, sem_obs=obs_vv_emis, ekinds=("rich",), gen_hook=lambda G, rng: c17_hook(G, rng),
                nontrivial=lambda g, inp: has_head(g, set(DECOR)),
                rule="C01/C02 grammars with labelled / as_context / map_err at random nodes, Rich errors; non-trivial = a decoration present"),
    "C18": Spec("C18", CORE + ITER + RECOVER + ["MapWith"] * 6 + ["FoldlWith", "FoldrWith"] + ["Skip"] * 2 + ["WithState"] * 3 + ["Padded"] * 4 + ["AnyRef", "SelectRef"] * 2 + ["Prog"] * 3, obs_vv, ekinds=("rich",), ikinds=("str", "slice"),
                gen_hook=lambda G, rng: c18_hook(G, rng),
                nontrivial=lambda g, inp: len(inp) > 0 and has_head(g, {"MapWith", "FoldlWith", "FoldrWith", "IMapWith"}),
                rule="C01/C02/C08 grammars with state-observing map_with / foldl_with / foldr_with at random nodes (the inspector "
                     "hashes every token and snapshots on save), tokens also consumed through InputRef::skip in custom parsers, with_state(seed) at random nodes "
                     "(for grammars containing it only the tie decides: the specification's state is positional); "
                     "non-trivial = an observation present, non-empty input"),
    "C20": Spec("C20", CORE + SPANS + ITER + EMIT + RECOVER + DECOR + CTX + ["ExtWrap", "Skip", "Padded", "IntoIter", "CollectOrNot", "RepUnitCfg", "Prog", "Pratt"], lambda r: (r.kind,), ekinds=("rich", "empty", "cheap", "simple"),
                gen_hook=lambda G, rng: (G.leftrec_wrapped() if rng.random() < 0.06 else G.memoize(G.g(rng.randint(2, 3)), 0.3) if rng.random() < 0.06 else
                                         G.pratt() if rng.random() < 0.06 else G.g(rng.randint(1, 4))),
                ikinds=("str", "slice", "io", "stream"), nontrivial=lambda g, inp: True,
                rule="grammars over every modelled constructor (repetition items and skip parsers syntactically consuming), "
                     "all error types; observable = the verdict class (OK / FAIL / PANIC / TIMEOUT); plus implementation-only runs with the verdict known by "
                     "construction: chains of 3*10^4 (thorough: 3*10^5) right-/left-associative infix, prefix and postfix Pratt operators, nesting 6*10^4 deep through "
                     "recursive / declare-define / mutual recursion, flat repetitions of 3*10^5 tokens (a crash or hang of the worker counts as a violation)"),
}

def c19_short(G, rng):
    """a fixed-size collection that stops short after items were written although nothing was consumed since make_iter: the items
    come out of an into_iter() (its parser ran in make_iter), the iterable chained after it yields too few"""
    tr = lambda g: ["Map", "FNew", g]
    head = ["Collect", "CVec", ["IRep", tr(rng.choice(["Any", ["Just", [A]], ["OneOf", [A, B]]])), rng.randint(1, 2), rng.randint(2, 3)]]
    tail = rng.choice([["IRep", tr(["Just", [B]]), 0, "inf"], ["IOrNot", tr(["Just", [C]])], ["IRep", tr(["OneOf", [B, C]]), 0, 2]])
    ce = ["CollectExactly", rng.randint(2, 4), ["IThen", ["IIntoIter", head], tail]]
    c = rng.random()
    if c < 0.4: return ce
    if c < 0.7: return ["Or", ce, ["Collect", "CCount", ["IRep", "Any", 0, "inf"]]]
    return ["Then", ["OrNot", ce], ["Collect", "CCount", ["IRep", "Any", 0, "inf"]]]
SPECS["C19"] = Spec("C19", CORE + ["Map"] * 6 + ITER + ["CollectExactly"] * 3 + ["GroupArr"] * 5 + ["Group"] * 2 + RECOVER + EMIT + ["IntoIter"] * 2, obs_full, sem_obs=obs_vv_emis_last,
                    ekinds=("rich",), ikinds=("str", "slice", "stream"), extra=drop_oracle, n_quick=700, n_thorough=8000,
                    gen_hook=lambda G, rng: (setattr(G, "track", True), c19_short(G, rng) if rng.random() < 0.12 else ["Then", ["Map", "FNew", "Any"], G.g(rng.randint(1, 3))] if rng.random() < 0.15 else G.g(rng.randint(2, 4)))[1],
                    nontrivial=lambda g, inp: len(inp) > 0 and "FNew" in str(g) and has_head(g, {"GroupArr", "CollectExactly", "Group", "Foldl", "Foldr", "RecoverVia", "Or", "Collect"}),
                    rule="C01/C02/C08 grammars extended with group([..;N]) (N = 1..4), group((..)), collect_exactly::<[T;N]>, folds and recovery, whose map "
                         "closures create drop-tracked values (unique id, registered on creation and on Clone, unregistered on Drop; dropping an unregistered id "
                         "raises the double-drop flag); parse and check, &str / &[T] / Stream; after each case the result, the parser and the input are dropped "
                         "and the live set must be empty; non-trivial = a tracked mapper and a fixed-size / folding / backtracking node present, non-empty input")
NO_STATE_MW = ["MWSpan", "MWCtx"]
def via_some(g, rng):
    """some nested_in nodes get the compound selector never.or(group) (NestedVia)"""
    if isinstance(g, list):
        y = [via_some(a, rng) for a in g]
        if y and y[0] == "NestedIn" and rng.random() < 0.35: y[0] = "NestedVia"
        return y
    return g
def c16_hook(G, rng):
    return via_some(c16_hook0(G, rng), rng)
def c16_hook0(G, rng):
    G.mws = ["MWSpan", "MWCtx"]
    d = rng.randint(1, 3)
    inner = G.g(d)
    c = rng.random()
    n = ["NestedIn", inner]
    if c < 0.3: return ["Then", G.g(1), ["Then", n, G.g(1)]]
    if c < 0.5: return ["Or", ["Then", n, G.g(1)], G.g(2)]
    if c < 0.65: return ["Collect", "CVec", ["IRep", ["Or", n, G.leaf(True)], 0, "inf"]]
    if c < 0.75: return ["RecoverVia", n, ["To", 7, "Any"]]
    return G.g(rng.randint(2, 4))
def c16_pairs(rng, tier):
    """probe pairs: (NestedIn a) on the single group [G(children)] next to a on the children themselves"""
    # (no user-state observers: the inner parse shares the outer state, which has seen the group token)
    G = Gen(rng, [c for c in CORE + ITER + EMIT + ["RecoverVia", "NestedIn", "MapWith", "ToSpan"] if c not in ("FoldlWith", "FoldrWith")], alpha=ALPHA, slices=False)
    G.mws = ["MWSpan", "MWCtx"]; G.emit_bias = 0.2
    out = []
    for _ in range(150 if tier == "quick" else 2500):
        a = G.g(rng.randint(1, 3))
        for ch in inputs_for(rng, a, ALPHA, n_valid=2, n_mut=2, n_rand=1, trees=True)[:6]:
            out.append((["NestedIn", a], [("G", tuple(ch))]))
            out.append((a, list(ch)))
    return out

def c16_cross(groups):
    """C16: a.nested_in(group) on the single group token behaves exactly like a on the group's children as the whole input:
    same verdict, same output, same errors (they keep their inner spans)."""
    idx, bad = {}, []
    allc = [x for rs in groups.values() for x in rs]
    for cid, m, r in allc:
        idx[(sx(m["g"]), sx(list(m["inp"])), m["mode"], m["ekind"])] = (cid, r)
    for cid, m, r in allc:
        g, inp = m["g"], m["inp"]
        if isinstance(g, list) and g[0] == "NestedIn" and len(inp) == 1 and is_group(inp[0]):
            o = idx.get((sx(g[1]), sx(list(inp[0][1])), m["mode"], m["ekind"]))
            if o is None or r.kind not in ("OK", "FAIL") or o[1].kind not in ("OK", "FAIL"): continue
            def has_empty(ts): return any(is_group(t) and (len(t[1]) == 0 or has_empty(t[1])) for t in ts)
            if has_empty(inp[0][1]): continue      # an empty sequence has a fixed end-of-input span: not comparable modulo an offset
            # inner spans are printed raw; inside the group the children sit one position further right than as a top-level input
            import re as _re
            shift = lambda t: _re.sub(r"(\d+)\.\.(\d+)", lambda m_: f"{int(m_.group(1)) - 1}..{int(m_.group(2)) - 1}",
                                      _re.sub(r"S(\d+)\.(\d+)", lambda m_: f"S{int(m_.group(1)) - 1}.{int(m_.group(2)) - 1}", t))
            ids = lambda t: _re.sub(r"20000(\d\d)", lambda m_: "20000%02d" % (int(m_.group(1)) - 1), t)     # group ids are numbered in pre-order
            if ids(shift(r.raw) if len(inp[0][1]) > 0 else r.raw) != o[1].raw:   # (the end-of-input span of an empty sequence is fixed)
                bad.append((cid, f"nested_in on a single group differs from the inner grammar on the children: {r.raw} vs {o[1].raw}"))
    return bad

SPECS["C16"] = Spec("C16", CORE + ITER + EMIT + ["RecoverVia"] + ["NestedIn"] * 8 + ["MapWith", "ToSpan"], obs_full, sem_obs=obs_vv_emis_last, ekinds=("rich",), ikinds=("tree",),
                    gen_hook=c16_hook, slices=False, n_quick=800, n_thorough=8000, emit_bias=0.15,
                    nontrivial=lambda g, inp: has_head(g, {"NestedIn", "NestedVia"}) and any(is_group(t) for t in inp),
                    rule="token trees (leaves and group tokens, nested up to the grammar's nesting depth, gapped spans, a group spanning its children) with "
                         "C01/C02 grammars at every level and nested_in at random nodes (nested up to 4 deep), validate emitters inside and outside; inputs: "
                         "sampled trees, ill-formed inner sequences (mutations inside groups), a leaf where a group is expected, truncated / extended, random "
                         "trees; the machine's inner parse is the machine itself on the group's children (coq/Model/Nested.v); "
                         "non-trivial = a nested_in node in the grammar and a group token in the input")
# ----------------------------------------------------------------------------------------------
# impl-only runs: nesting / chains far beyond the model's fuel. The expected verdict is known by construction.
# ----------------------------------------------------------------------------------------------
def deep_case(d):
    """descriptor dict(family, n, mode, broken) -> (grammar, input, expected verdict). Outputs are flat (Ignored / check
    mode) so that dropping the harness's own result value cannot recurse."""
    fam, n, broken = d["family"], d["n"], d.get("broken", False)
    O, Cc, SO, SC = 40, 41, 91, 93
    nest = lambda R: ["Ignored", [R, ["Or", ["Ignored", ["Then", ["Just", [O]], ["Then", ["Var", 0], ["Just", [Cc]]]]], ["Ignored", "Empty"]]]]
    if fam in ("rec_nest", "decl_nest"):
        g = nest("Rec" if fam == "rec_nest" else "RecDecl")
        inp = [O] * n + [Cc] * (n - 1 if broken else n)
    elif fam in ("fat_rec", "fat_decl"):
        # every level goes through an extension parser that keeps a 36 KiB scratch buffer on the stack (harness ExtW): the stack
        # must be grown in time for levels that need tens of KiB between two growth checks
        R = "Rec" if fam == "fat_rec" else "RecDecl"
        g = ["Ignored", [R, ["Or", ["Ignored", ["Then", ["Just", [O]], ["Then", ["ExtWrap", ["Var", 0]], ["Just", [Cc]]]]], ["Ignored", "Empty"]]]]
        inp = [O] * n + [Cc] * (n - 1 if broken else n)
    elif fam in ("mutual_decl", "mutual_rec"):
        # round = '(' square ')' | empty ; square = '[' round ']' | empty
        R = "RecDecl" if fam == "mutual_decl" else "Rec"
        sq = [R, ["Or", ["Ignored", ["Then", ["Just", [SO]], ["Then", ["Var", 1], ["Just", [SC]]]]], ["Ignored", "Empty"]]]
        g = ["Ignored", [R, ["Or", ["Ignored", ["Then", ["Just", [O]], ["Then", sq, ["Just", [Cc]]]]], ["Ignored", "Empty"]]]]
        h = n // 2
        inp = [O, SO] * h + [SC, Cc] * h
        if broken: inp = inp[:-1]
    elif fam == "right_rec":
        # list = a (',' list)?   (right recursion, one level per element)
        g = ["Ignored", ["RecDecl" if d.get("decl") else "Rec", ["Ignored", ["Then", ["Just", [A]], ["OrNot", ["IgnoreThen", ["Just", [COMMA]], ["Var", 0]]]]]]]
        inp = ([A, COMMA] * n)[:-1] + ([COMMA] if broken else [])
    elif fam in ("pratt_right", "pratt_left", "pratt_prefix", "pratt_postfix"):
        atom = ["Just", [A]]
        ops = {"pratt_right": [["PInfix", 1, 2, ["Just", [94]], 1]], "pratt_left": [["PInfix", 0, 1, ["Just", [43]], 1]],
               "pratt_prefix": [["PPrefix", 3, ["Just", [45]], 2]], "pratt_postfix": [["PPostfix", 3, ["Just", [33]], 2]]}[fam]
        g = ["Pratt", d.get("table", "tuple"), atom, ops]
        if fam == "pratt_right": inp = ([A, 94] * n) + [A]
        elif fam == "pratt_left": inp = ([A, 43] * n) + [A]
        elif fam == "pratt_prefix": inp = [45] * n + [A]
        else: inp = [A] + [33] * n
        if broken: inp = inp + [94 if fam == "pratt_right" else 43 if fam == "pratt_left" else 45]
    elif fam == "flat_rep":
        g = ["Then", ["RepUnit", ["IRep", ["Or", ["Then", ["Just", [A]], ["Just", [B]]], ["Just", [A]]], 0, "inf"]], "End"]
        inp = [A, B, A] * (n // 3) + ([C] if broken else [])
    else:
        raise AssertionError(fam)
    return g, inp, ("FAIL" if broken else "OK")

def c12_deep(tier):
    n = 200000 if tier == "quick" else 1000000
    out = []
    for fam in ("rec_nest", "decl_nest", "mutual_decl", "mutual_rec"):
        for mode in ("parse", "check"):
            out.append(dict(family=fam, n=n, mode=mode))
        out.append(dict(family=fam, n=n // 2, mode="parse", broken=True))
    out.append(dict(family="right_rec", n=n // 2, mode="parse"))
    out.append(dict(family="right_rec", n=n // 2, mode="check", decl=True))
    for fam in ("fat_rec", "fat_decl"):
        out.append(dict(family=fam, n=3000 if tier == "quick" else 20000, mode="parse"))
        out.append(dict(family=fam, n=3000 if tier == "quick" else 20000, mode="check"))
    return out

def c20_deep(tier):
    n = 30000 if tier == "quick" else 300000
    out = []
    for fam in ("pratt_right", "pratt_left", "pratt_prefix", "pratt_postfix"):
        out.append(dict(family=fam, n=n, mode="check"))
        out.append(dict(family=fam, n=n // 3, mode="check", broken=True))
    for fam in ("rec_nest", "decl_nest", "mutual_decl"):
        out.append(dict(family=fam, n=n * 2, mode="check"))
        out.append(dict(family=fam, n=n, mode="parse", broken=True))
    out.append(dict(family="flat_rep", n=n * 10, mode="parse"))
    out.append(dict(family="flat_rep", n=n * 10, mode="check", broken=True))
    return out

SPECS["C12"].deep = c12_deep
SPECS["C20"].deep = c20_deep
SPECS["C16"].extra_cases = c16_pairs
SPECS["C16"].cross = c16_cross
SPECS["C01"].universe = U(unary=[lambda x: ["Collect", "CVec", ["IOrNot", x]]])
SPECS["C02"].universe = U(unary=[lambda x: ["Collect", "CVec", ["IEnum", ["IRep", x, 0, 3]]], lambda x: ["Foldr", ["IRep", x, 0, "inf"], "Empty", 5],
                                 lambda x: ["Collect", "CVec", ["IOrNot", x]], lambda x: ["CollectExactly", 2, ["IIntoIter", ["Collect", "CVec", ["IRep", x, 0, "inf"]]]],
                                 lambda x: ["Collect", "CCount", ["IIntoIter", ["OrNot", x]]]],
                          binary=[lambda x, y: ["Collect", "CVec", ["ISep", x, y, 1, 2, 1, 0]], lambda x, y: ["RepUnit", ["ISep", x, y, 0, "inf", 1, 1]],
                                  lambda x, y: ["Collect", "CVec", ["IThen", ["IRep", x, 0, "inf"], ["IRep", y, 0, "inf"]]],
                                  lambda x, y: ["Collect", "CCount", ["IThen", ["IOrNot", x], ["IRep", y, 1, 2]]]])
SPECS["C03"].universe = U(unary=[lambda x: ["Lazy", x]])
SPECS["C04"].universe = U(unary=[lambda x: ["ToSlice", x], lambda x: ["To", 1, x], lambda x: ["ExtWrap", x], lambda x: ["Validate", "PTrue", 2, x],
                                 lambda x: ["CollectExactly", 2, ["IIntoIter", ["Collect", "CVec", ["IRep", x, 0, "inf"]]]], lambda x: ["Collect", "CVec", ["IIntoIter", ["OrNot", x]]]],
                          binary=[lambda x, y: ["DelimitedBy", x, y, y], lambda x, y: ["RecoverVia", x, y]])
SPECS["C05"].universe = U(unary=[lambda x: ["Validate", "PTrue", 2, x]], binary=[lambda x, y: ["RecoverVia", x, y]])
SPECS["C06"].universe = dict(leaves=U_LEAVES, unary=[f for f in U_UNARY if f("Any")[0] != "Not"], binary=U_BINARY)
SPECS["C08"].universe = U(unary=[lambda x: ["Validate", "PTrue", 2, x]],
                          binary=[lambda x, y: ["RecoverVia", x, y], lambda x, y: ["RecoverSkipRetry", x, "Any", y], lambda x, y: ["RecoverSkipUntil", x, "Any", y, 9]])
SPECS["C17"].universe = U(unary=[lambda x: ["Labelled", 1, 1, x], lambda x: ["Labelled", 2, 0, x], lambda x: ["MapErr", 3, x]])
SPECS["C18"].universe = U(leaves=[["Skip", 1]], unary=[lambda x: ["MapWith", "MWState", x], lambda x: ["MapWith", "MWAll", x], lambda x: ["WithState", 5, x]])
SPECS["C20"].universe = U(unary=[lambda x: ["Labelled", 1, 0, x], lambda x: ["MapErr", 3, x], lambda x: ["ExtWrap", x]], binary=[lambda x, y: ["RecoverVia", x, y]])
def renumber_memo(g):
    """every memoized() call is a distinct parser: give each Memo node its own id"""
    c = [0]
    def walk(x):
        if isinstance(x, list):
            y = [walk(a) for a in x]
            if y and y[0] == "Memo":
                c[0] += 1; y[1] = c[0]
            return y
        return x
    return walk(g)
SPECS["C11"].universe = dict(U(unary=[lambda x: ["Memo", 1, x]]), post=renumber_memo)
SPECS["C07"].universe = U(unary=[lambda x: ["MapWith", "MWSpan", x], lambda x: ["ToSlice", x], lambda x: ["MapWith", "MWSlice", x]],
                          binary=[lambda x, y: ["FoldlWith", x, ["IRep", y, 0, "inf"], 4], lambda x, y: ["FoldrWith", ["IRep", x, 0, "inf"], y, 4]])
SPECS["C15"].universe = U(leaves=[["JustCfg", [A]]],
                          unary=[lambda x: ["WithCtx", ["VTok", A], x], lambda x: ["WithCtx", ["VList", [["VTok", A], ["VTok", B]]], x], lambda x: ["MapCtx", "FDup", x],
                                 lambda x: ["MapWith", "MWCtx", x], lambda x: ["Collect", "CVec", ["IRepCfg", x, 0, "inf", 0]],
                                 lambda x: ["Collect", "CVec", ["IRepCfg", x, 1, 2, 8]], lambda x: ["RepUnit", ["IRepCfg", x, 0, "inf", 5]],
                                 lambda x: ["RepUnit", ["IRepCfg", x, 0, "inf", 0]], lambda x: ["RepUnit", ["IRepCfg", x, 0, 1, 1]]],
                          binary=[lambda x, y: ["IgnoreWithCtx", x, y], lambda x, y: ["ThenWithCtx", x, y]])
SPECS["C12"].universe = dict(U(leaves=[["Var", 0]], unary=[lambda x: ["DelimitedBy", x, ["Just", [A]], ["Just", [B]]]]),
                             post=lambda g: ["Rec" if sx(g).count("(") % 2 == 0 else "RecDecl", ["Or", ["IgnoreThen", ["Just", [A]], g], ["Just", [B]]]])
SPECS["C04"].kind_cases = c04_trees
SPECS["C10"].kind_cases = c10_graphemes
def c01_forward(rng, tier):
    """a lookahead that consumes less than the parser it guards, followed by something that reads on: the input must deliver the
    token at the cursor after the cursor was moved FORWARD (IoInput's reader, a Stream's cache), and the verdict depends on it"""
    out = []
    for _ in range(40 if tier == "quick" else 400):
        x, y, z = (rng.choice([A, B, C]) for _ in range(3))
        la = rng.choice([["Just", [x]], ["OneOf", [x, y]], "Any", ["Then", ["Just", [x]], ["Rewind", "Any"]]])
        rest = rng.choice([["Just", [z]], ["Collect", "CVec", ["IRep", "Any", 0, "inf"]], ["Then", "Any", "End"], ["Or", ["Just", [z]], ["Just", [y]]]])
        g = ["Then", ["AndIs", ["Then", ["Just", [x]], ["Just", [y]]], la], rest]
        for inp in ([x, y, z], [x, y, z, z], [x, y], [x, y, y], [x, y, rng.choice([A, B, C])]):
            out.append((g, inp, ["io", "stream", "str"]))
    return out
SPECS["C01"].kind_cases = lambda rng, tier: c01_graphemes(rng, tier) + c01_forward(rng, tier)
SPECS["C06"].kind_cases = c06_trees
SPECS["C10"].all_kinds = True
SPECS["C10"].extra_cases = c10_long
