"""C14: text parsers. The implementation side is /verif/textharness (chumsky's text::* parsers), the
model side the derived grammars of coq/Model/Text.v run by the extracted machine, with character
classes taken from chumsky's own text::Char classification of the characters in the alphabet."""
import os, random, subprocess, itertools
from common import *
from gen import sx

TEXT_EXE = os.path.join(ROOT, "textharness", "target", "debug", "textharness")

def build_textharness(timeout=1200):
    d = os.path.join(ROOT, "textharness")
    lock = os.path.join(d, "Cargo.lock")
    if not os.path.exists(lock):
        shutil.copy("/repo/Cargo.lock", lock)
    rc, out = sh("cargo build --offline 2>&1 | tail -30", cwd=d, timeout=timeout)
    return rc == 0 and os.path.exists(TEXT_EXE), out

def run_text(lines, tag):
    os.makedirs(WORK, exist_ok=True)
    n = max(1, min(NPROC, len(lines) // 200 + 1))
    outs = {}
    procs = []
    for i in range(n):
        p = os.path.join(WORK, f"{tag}.text.{i}.cases")
        open(p, "w").write("\n".join(lines[i::n]) + "\n")
        procs.append((p, subprocess.Popen([TEXT_EXE, p], stdout=subprocess.PIPE, stderr=subprocess.DEVNULL, env=ENV)))
    for p, pr in procs:
        try:
            o, _ = pr.communicate(timeout=600)
        except subprocess.TimeoutExpired:
            pr.kill(); o = b""
        for l in o.decode("utf-8", "replace").splitlines():
            sp = l.split(" ", 1)
            if len(sp) == 2: outs[sp[0]] = sp[1]
        os.remove(p)
    return outs

# the 12-character alphabet of the property (+ extra characters for the random stream)
ALPHA12 = [48, 49, 55, 97, 102, 122, 95, 32, 13, 10, 233, 45]   # 0 1 7 a f z _ space CR LF é -
EXTRA = [11, 12, 9, 133, 8232, 8233, 65, 90, 57, 8364, 1635, 160, 46, 181, 768]

FLAGS = ["ws", "iws", "nl", "d2", "d8", "d10", "d16", "d36", "start", "cont"]

def class_table(chars):
    out = run_text([sx(["T", "class", chars])], "cls")
    row = out.get("T", "")
    tab = {}
    for item in row.split()[1:]:
        t, bits = item.split(":")
        t = int(t)
        c = {f: bits[i] == "1" for i, f in enumerate(FLAGS)} if bits[0] != "-" else None
        b = {f: bits[10 + i] == "1" for i, f in enumerate(FLAGS)} if bits[10] != "-" else None
        g = None
        if len(bits) >= 34 and bits[22] != "-":
            g = {f: bits[22 + i] == "1" for i, f in enumerate(FLAGS)}
            g["aalpha"], g["aalnum"] = bits[32] == "1", bits[33] == "1"
        tab[t] = dict(char=c, byte=b, aalpha=bits[20] == "1", aalnum=bits[21] == "1", graph=g)
    return tab

# ---- the documented character classes, stated independently of chumsky (property C14) ----
WHITE_SPACE = {9, 10, 11, 12, 13, 32, 133, 160, 5760, 8232, 8233, 8239, 8287, 12288} | set(range(8192, 8203))   # Unicode White_Space (char::is_whitespace)
NEWLINES = {10, 13, 11, 12, 133, 8232, 8233}          # the documented line terminators (CR LF is the eighth, a sequence)
def digit_val(t):
    if 48 <= t <= 57: return t - 48
    if 97 <= t <= 122: return t - 97 + 10
    if 65 <= t <= 90: return t - 65 + 10
    return None
CRLF = 3000000      # the cluster CR LF of the class table (a &Grapheme only)
def expected_class(t):
    """flag -> bool for the character t, from the property's text: radix-r digits are the ASCII digits/letters below r, ascii idents
    [A-Za-z_][A-Za-z0-9_]*, unicode idents XID_Start|_ XID_Continue* (Python's identifier rules are XID based), whitespace = White_Space,
    inline whitespace = space and tab"""
    if t == CRLF:       # the eighth documented line terminator: whitespace, a newline, nothing else
        e = {f: False for f in FLAGS + ["aalpha", "aalnum"]}
        e["ws"] = e["nl"] = True
        return e
    c = chr(t)
    e = dict(ws=t in WHITE_SPACE, iws=t in (32, 9), nl=t in NEWLINES)
    for r in (2, 8, 10, 16, 36):
        v = digit_val(t)
        e["d%d" % r] = v is not None and v < r
    e["start"] = (c == "_") or c.isidentifier()
    e["cont"] = ("a" + c).isidentifier()
    e["aalpha"] = (65 <= t <= 90) or (97 <= t <= 122) or t == 95
    e["aalnum"] = e["aalpha"] or (48 <= t <= 57)
    return e

def class_oracle(tab):
    """(token, kind, flag, got, want) for every character whose classification by chumsky's text::Char differs from the documented class;
    bytes are held to the char classification on ASCII; a one-code-point grapheme cluster to the classification of its character, and the
    cluster CR LF to "whitespace and newline" """
    bad = []
    for t, row in sorted(tab.items()):
        want = expected_class(t)
        if row.get("graph") is not None:
            for f in FLAGS + ["aalpha", "aalnum"]:
                if f in ("aalpha", "aalnum") and t >= 128 and t != CRLF: continue
                if row["graph"][f] != want[f]: bad.append((t, "grapheme", f, row["graph"][f], want[f]))
        if row["char"] is None: continue
        for f in FLAGS:
            if row["char"][f] != want[f]: bad.append((t, "char", f, row["char"][f], want[f]))
            if row["byte"] is not None and t < 128 and row["byte"][f] != want[f]: bad.append((t, "u8", f, row["byte"][f], want[f]))
        for f in ("aalpha", "aalnum"):
            if t < 128 and row[f] != want[f]: bad.append((t, "ascii", f, row[f], want[f]))
    return bad

def cls(tab, kind, flag, chars):
    k = "char" if kind == "str" else "byte"
    return [t for t in chars if tab[t][k] and tab[t][k][flag]]

def model_grammar(parser, kind, tab, chars):
    """The derived grammar (coq/Model/Text.v, via the runner's Text* forms) for a textharness parser."""
    h = parser[0] if isinstance(parser, list) else parser
    C = lambda f: cls(tab, kind, f, chars)
    if h in ("int", "padded_int"):
        r = parser[1]
        d = C({2: "d2", 8: "d8", 10: "d10", 16: "d16", 36: "d36"}[r])
        g = ["TextInt", d, [t for t in d if t != 48], 48]
        return ["TextPadded", C("ws"), g] if h == "padded_int" else g
    if h == "digits":
        return ["TextDigits", C({2: "d2", 8: "d8", 10: "d10", 16: "d16", 36: "d36"}[parser[1]])]
    aalpha = [t for t in chars if tab[t]["aalpha"] and (kind == "str" or t < 256)]
    aalnum = [t for t in chars if tab[t]["aalnum"] and (kind == "str" or t < 256)]
    if h == "ident": return ["TextIdent", aalpha, aalnum]
    if h == "padded_ident": return ["TextPadded", C("ws"), ["TextIdent", aalpha, aalnum]]
    if h == "uident": return ["TextIdent", C("start"), C("cont")]
    if h == "keyword": return ["TextKeyword", aalpha, aalnum, parser[1]]
    if h == "ukeyword": return ["TextKeyword", C("start"), C("cont"), parser[1]]
    if h == "whitespace": return ["TextWhitespace", C("ws")]
    if h == "inline_whitespace": return ["TextWhitespace", C("iws")]
    if h == "newline": return ["TextNewline", C("nl"), 13, 10]
    return None

def text_cases(rng, tier):
    """Yields (id, kind, parser, toks)."""
    parsers = [["int", r] for r in (2, 8, 10, 16, 36)] + [["digits", r] for r in (2, 8, 10, 16, 36)] + \
              ["ident", "uident", "whitespace", "inline_whitespace", "newline", ["padded_int", 10], ["padded_ident"],
               ["keyword", [97, 102]], ["keyword", [97]], ["ukeyword", [97, 102]], ["ukeyword", [233, 97]], ["keyword", [95, 48]]]
    strings = []
    maxlen = 3 if tier == "quick" else 4
    for n in range(maxlen + 1):
        for t in itertools.product(ALPHA12, repeat=n):
            strings.append(list(t))
    nrand = 3000 if tier == "quick" else 40000
    al = ALPHA12 + EXTRA
    for _ in range(nrand):
        strings.append([rng.choice(al) for _ in range(rng.randint(1, 9))])
    cid = 0
    for s in strings:
        for p in (parsers if len(s) <= 2 or tier != "quick" else rng.sample(parsers, 6)):
            for kind in ("str", "bytes", "graphemes"):
                if kind == "graphemes" and any(t >= 128 for t in s): continue                      # ASCII text: clusters are the characters, and CR LF
                if kind == "bytes" and (any(t >= 256 for t in s) or p == "newline"): continue      # (bytes 128..255: not ASCII text, but the languages must still reject / delimit them)
                if kind == "bytes" and isinstance(p, list) and p[0] in ("keyword", "ukeyword") and any(t >= 128 for t in p[1]): continue
                cid += 1
                yield cid, kind, p, s
    # regex: implementation vs an anchored regex-automata search (no model)
    for _ in range(600 if tier == "quick" else 6000):
        s = [rng.choice([97, 98, 99, 48, 49, 46, 32, 233, 10]) for _ in range(rng.randint(0, 7))]
        cid += 1
        yield cid, "str", ["regex", rng.randint(0, 15)], s
        # the same patterns (incl. look-behind assertions \b \B ^ (?m)^ $) at a non-zero position, &str and &[u8]
        for _ in range(2):
            cid += 1
            k = rng.randint(0, max(1, len(s)))
            yield cid, ("bytes" if (rng.random() < 0.3 and all(t < 128 for t in s)) else "str"), ["regexat", rng.randint(0, 15), k], s

def check_c14(pid, tier, seed):
    """Returns dict(stats, samples, violations[(kind, text, info)], known_lines, rule)."""
    rng = random.Random(seed)
    ok, log = build_textharness()
    res = dict(stats=dict(evaluations=0, distinct_nontrivial=0, str_bytes_pairs=0, regex_cases=0, tie_failures=0, oracle_failures=0, known=0),
               samples=[], violations=[], known=[], build_broken=[])
    if not ok:
        res["build_broken"].append("textharness does not build against /repo: " + log[-500:]); return res
    chars = sorted(set(ALPHA12 + EXTRA))
    tab = class_table(chars)
    if len(tab) != len(chars):
        res["build_broken"].append("textharness class table incomplete"); return res
    # independent oracle on the classes themselves: all of Latin-1 plus the extra characters
    wide = sorted(set(chars) | {CRLF} | set(range(0, 256)) | {5760, 8192, 8202, 8239, 8287, 12288, 8203, 1632, 65296, 42, 64, 96, 91, 123, 47, 58})
    wtab = class_table(wide)
    cbad = class_oracle(wtab) if len(wtab) == len(wide) else [(-1, "table", "incomplete", None, None)]
    res["stats"]["class_entries"] = len(wtab) * (len(FLAGS) * 3 + 4)
    if cbad:
        w = cbad[0]
        res["violations"].append(("oracle", "a character class of text::Char differs from the documented one",
                                  dict(case=sx(["T", "class", [w[0]]]), token=w[0], impl_kind=w[1], flag=w[2], got=w[3], documented=w[4], n_failures=len(cbad),
                                       note="text::Char classification vs the documented classes (radix digits, White_Space, the line terminators, [A-Za-z_][A-Za-z0-9_]*, XID_Start/XID_Continue)")))
        res["stats"]["oracle_failures"] += len(cbad)
    cases = list(text_cases(rng, tier))
    tlines, mlines, meta = [], [], {}
    for cid, kind, p, s in cases:
        tlines.append(sx([cid, kind, p, s]))
        meta[cid] = (kind, p, s)
        h = p[0] if isinstance(p, list) else p
        if h in ("regex", "regexat"): continue
        if kind == "graphemes": continue          # held to the &str result below (the model's tokens are characters)
        g = model_grammar(p, kind, tab, chars)
        lazy = ["ThenIgnore", g, ["RepUnit", ["IRep", "Any", 0, "inf"]]]
        mlines.append(sx([2 * cid, "slice", "simple", "parse", lazy, s]))
        mlines.append(sx([2 * cid + 1, "slice", "simple", "parse", g, s]))
    impl = run_text(tlines, pid)
    mach = run_cases("go", mlines, pid + ".m", env={"CHUM_WHICH": "go", "CHUM_QUIRKS": "000000000"})
    semr = run_cases("sem", mlines, pid + ".s", env={"CHUM_WHICH": "sem"})
    seen = set()
    byinput = {}
    tie_bad, sem_bad, regex_bad = [], [], []
    for cid, kind, p, s in cases:
        r = impl.get(str(cid), "MISSING")
        h = p[0] if isinstance(p, list) else p
        if r.startswith("UNSUPPORTED") or r == "MISSING": continue
        res["stats"]["evaluations"] += 1
        parts = r.split()
        pref, full = parts[0], parts[1]
        if h in ("regex", "regexat"):
            res["stats"]["regex_cases"] += 1
            if len(parts) > 2 and parts[2][1:] != pref[1:]:
                regex_bad.append((cid, r))
            continue
        if kind == "graphemes":
            byinput.setdefault((str(p), tuple(s)), {})[kind] = (pref, full)
            continue
        def mview(out):
            a, b = Res(out.get(2 * cid, "MISSING")), Res(out.get(2 * cid + 1, "MISSING"))
            pm = ("P" + a.val[1:]) if a.kind == "OK" and a.val and a.val.startswith("Z") else "P-"
            fm = "F1" if (b.kind == "OK" and not b.errs) else "F0"
            return pm, fm
        if mview(mach) != (pref, full): tie_bad.append((cid, r, mview(mach)))
        elif mview(semr) != (pref, full): sem_bad.append((cid, r, mview(semr)))
        if len(s) > 0 and pref != "P-": seen.add((str(p), tuple(s)))
        byinput.setdefault((str(p), tuple(s)), {})[kind] = (pref, full)
        if len(res["samples"]) < 6 and cid % 211 == 3:
            res["samples"].append(dict(case=sx([cid, kind, p, s]), impl=r, machine=" ".join(mview(mach)), sem=" ".join(mview(semr))))
    res["stats"]["distinct_nontrivial"] = len(seen)
    res["stats"]["tie_failures"] = len(tie_bad)
    res["stats"]["oracle_failures"] += len(sem_bad) + len(regex_bad)
    # &str vs &[u8] on ASCII text
    sb_bad = []
    for (p, s), d in byinput.items():
        if "str" in d and "bytes" in d and all(t < 128 for t in s):
            res["stats"]["str_bytes_pairs"] += 1
            if d["str"] != d["bytes"]: sb_bad.append((p, s, d))
        if "str" in d and "graphemes" in d:
            res["stats"]["str_graphemes_pairs"] = res["stats"].get("str_graphemes_pairs", 0) + 1
            if d["str"] != d["graphemes"]: sb_bad.append((p, s, d))
    res["sb_bad"] = sb_bad
    for lst, kind, txt in ((tie_bad, "tie", "text parser result differs from the model of text.rs"),
                           (sem_bad, "oracle", "text parser result differs from the specification"),
                           (regex_bad, "oracle", "regex() differs from an anchored regex-automata search")):
        if lst:
            c = min(lst, key=lambda x: len(meta[x[0]][2]))
            kind0, p0, s0 = meta[c[0]]
            res["violations"].append((kind, txt, dict(case=sx([c[0], kind0, p0, s0]), impl=c[1], model=str(c[2]) if len(c) > 2 else None,
                                                      n_failures=len(lst), note=txt)))
    return res
